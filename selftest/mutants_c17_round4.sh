#!/bin/bash
# Must-fail corpus for the round-4 C17 contracts (pkg/mods sweep, doc:find): each line is a one-line
# change that makes a crash possible; every one must be reported by the C17 quick check.
cd "$(dirname "$0")/.."
m() { echo "== $1"; shift; selftest/run_mutant_wt.sh C17 "$@" 2>&1 | grep -E "^VIOLATION|^gvc|MUTANT" | cut -c1-200 | head -4; }
# (a harmless change: matches that touch are left unmerged; Show does not need them apart - must NOT be reported)
m "doc: HARMLESS touching matches unmerged - expect 0 violations" pkg/mods/doc/match.go 's/if rs\[j\].From > rs\[j-1\].To {/if rs[j].From >= rs[j-1].To {/'
m "doc: result slice one too long" pkg/mods/doc/match.go 's/return rs\[:i+1\]/return rs[:i+2]/'
m "doc: line start computed from the match end" pkg/mods/doc/match.go 's/lineFrom := lastLineStart(b.block.Text, m.From)/lineFrom := lastLineStart(b.block.Text, m.To)/'
m "doc: firstLineEnd forgets the offset" pkg/mods/doc/match.go 's/^\t\treturn from + i$/\t\treturn i/'
m "doc: empty match lists are merged too" pkg/mods/doc/match.go 's/if len(bMatches\[i\]) > 0 {/if len(bMatches[i]) >= 0 {/'
m "platform: SplitN with n=0 gives nil" pkg/mods/platform/platform.go 's/strings.SplitN(hostname, ".", 2)/strings.SplitN(hostname, ".", 0)/'
m "eval: Frame.Port negative number (the fixed defect)" pkg/eval/frame.go 's/if i < 0 || i >= len(fm.ports) {/if i >= len(fm.ports) {/'
