#!/usr/bin/env python3
# Validates /verif/evidence/*.json against the evidence schema and the proof-level rule
# discharged == obligations, for every check in MANIFEST.json. Run with python3-vt (jsonschema).
import json, sys, os
import jsonschema
schema = json.load(open('/root/.vp/EVIDENCE.schema.json'))
man = json.load(open('/verif/MANIFEST.json'))
bad = 0
for c in man['checks']:
    pid = c['property_id']; p = c['evidence_file']
    try:
        ev = json.load(open(p))
        jsonschema.validate(ev, schema)
        cov = ev['coverage']
        assert ev['property_id'] == pid, 'property_id'
        assert ev['level'] == c['level_claimed']['category'], 'level differs from MANIFEST'
        if ev['level'] == 'proof':
            assert cov['discharged'] == cov['obligations'], 'discharged (%d) != obligations (%d)' % (cov['discharged'], cov['obligations'])
        assert ev.get('violations', 0) == 0, 'violations=%s' % ev.get('violations')
        for b in cov.get('bounded') or []:
            assert b['passed'], 'bounded stand-in %s did not pass' % b['name']
        print(pid, 'ok', 'obligations=%s' % cov.get('obligations'), 'seed=%s' % ev['seed'], 'wall=%.0fs' % ev['wall_s'])
    except Exception as e:
        bad += 1
        print(pid, 'INVALID:', str(e)[:200])
sys.exit(1 if bad else 0)
