#!/usr/bin/env python3
"""Generates /verif/SEEDED.md from seeded/*/meta.json: which check catches which seeded change."""
import json, glob, os, re

rows = []
for d in sorted(glob.glob('/verif/seeded/*/')):
    name = os.path.basename(d.rstrip('/'))
    try:
        m = json.load(open(d + 'meta.json'))
    except Exception as e:
        continue
    cr = m.get('check_result', {})
    out = cr.get('check_output', [])
    viol = [l for l in out if l.startswith('VIOLATION')]
    ded = [re.search(r'obligation=(\S+)', l).group(1) for l in viol if 'obligation=' in l]
    bnd = [re.search(r'bounded=(\S+)', l).group(1) for l in viol if 'bounded=' in l]
    if cr.get('caught_by_quick_check'):
        how = []
        if ded:
            how.append('deductive: ' + ', '.join(sorted(set(ded))[:3]) + (' …' if len(set(ded)) > 3 else ''))
        if bnd:
            how.append('bounded: ' + ', '.join(sorted(set(bnd))))
        caught = 'yes — ' + '; '.join(how)
    else:
        caught = '**missed**' + (': ' + m['miss_reason'] if m.get('miss_reason') else '')
    rows.append((name, m.get('property', name.split('-')[0]), ', '.join(m.get('files', [])), (m.get('breaks') or '').replace('\n', ' ')[:260], (m.get('needs') or '').replace('\n', ' ')[:200], caught))

with open('/verif/SEEDED.md', 'w') as f:
    f.write("# Seeded changes and the checks that report them\n\n")
    f.write("Each change was produced by a sub-agent that saw only the property text, in its own scratch worktree, "
            "and was kept only after being confirmed (builds; existing tests of the touched packages pass; the demonstration "
            "test fails with the change and passes without). `patch.diff`, the demonstration and `meta.json` are in "
            "`/verif/seeded/<name>/`. The column *reported by* is the outcome of the property's registered quick check on "
            "the tree with the change applied (`selftest/eval_seeded.sh` applies it to /repo and restores it; "
            "`eval_seeded_wt.sh` does the same in a scratch worktree).\n\n")
    n = len(rows)
    c = sum(1 for r in rows if r[5].startswith('yes'))
    dcount = sum(1 for r in rows if 'deductive:' in r[5])
    f.write(f"{n} changes, {c} reported ({dcount} of them by a deductive obligation, the rest only by a bounded stand-in), {n - c} missed.\n\n")
    f.write("| change | property | file(s) | what breaks | needs | reported by |\n|---|---|---|---|---|---|\n")
    for r in rows:
        f.write("| " + " | ".join(x.replace('|', '\\|') for x in r) + " |\n")
print("rows:", len(rows))
