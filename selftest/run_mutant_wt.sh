#!/bin/bash
# usage: run_mutant_wt.sh <prop> <file-relative-to-repo> <sed-expression> [more file/expr pairs...]
# Applies one-line mutations in a scratch worktree of /repo HEAD (never in /repo), runs the property's quick check
# against that worktree (gvc -repo), removes the worktree.
export VERIF_EVIDENCE_DIR=/verif/out/selftest-evidence
export GOFLAGS=-mod=mod GOPROXY=off GOSUMDB=off GOTOOLCHAIN=local
prop=$1; shift
wt=/tmp/wt/mut-$$
git -C /repo worktree add --detach $wt HEAD >/dev/null 2>&1 || { echo "worktree failed"; exit 2; }
cd $wt
while [ $# -ge 2 ]; do
  f=$1; expr=$2; shift 2
  cp "$f" /tmp/mutant_backup.$$
  sed -i "$expr" "$f"
  if cmp -s "$f" /tmp/mutant_backup.$$; then echo "MUTANT-NOT-APPLIED $expr"; rm /tmp/mutant_backup.$$; cd /; git -C /repo worktree remove --force $wt; exit 3; fi
  rm /tmp/mutant_backup.$$
done
if ! go build ./pkg/... >/dev/null 2>&1; then echo "MUTANT-DOES-NOT-COMPILE"; fi
(cd /verif && ./bin/gvc -repo $wt -prop "$prop" -tier quick 2>&1 | grep -E "^VIOLATION|^gvc" | cut -c1-230)
cd /; git -C /repo worktree remove --force $wt
