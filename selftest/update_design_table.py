#!/usr/bin/env python3
"""Refreshes the fn / obl columns of the status table in DESIGN.md §9.1 from the evidence files."""
import json, re, glob
ev = {}
for f in glob.glob('/verif/evidence/*.json'):
    e = json.load(open(f)); c = e.get('coverage', {})
    ev[e['property_id']] = (len(c.get('functions_under_contract') or []), c.get('obligations'))
s = open('/verif/DESIGN.md').read()
def fix(m):
    pid = m.group(1)
    if pid in ev:
        return f"| {pid} | {ev[pid][0]} | {ev[pid][1]} |"
    return m.group(0)
s2 = re.sub(r'(?m)^\| (C\d\d) \| \d+ \| \d+ \|', fix, s)
open('/verif/DESIGN.md', 'w').write(s2)
print("updated rows:", len(re.findall(r'(?m)^\| C\d\d \| \d+ \| \d+ \|', s2)))
