#!/bin/bash
# evidence of runs on deliberately changed trees goes to a scratch directory, never to /verif/evidence
export VERIF_EVIDENCE_DIR=/verif/out/selftest-evidence
# Variant of eval_seeded.sh that never touches /repo: the patch is applied in a scratch worktree of /repo HEAD and gvc is pointed at it (-repo).
# usage: eval_seeded_wt.sh <dir with patch.diff demo_test.go meta.json> [property-id]
# 1. confirms the seeded change in a scratch worktree (build, package tests, demo fails with / passes without)
# 2. applies it to /repo, runs the property's quick check, restores /repo
# 3. stores it under /verif/seeded/<name>/ with the outcome
export GOFLAGS=-mod=mod GOPROXY=off GOSUMDB=off GOTOOLCHAIN=local
d=$1; name=$(basename $d); id=${2:-${name%%-*}}
wt=/tmp/wt/evalwt-$name
rm -rf $wt; git -C /repo worktree prune; git -C /repo worktree add --detach $wt HEAD >/dev/null 2>&1 || { echo "worktree failed"; exit 2; }
cd $wt
if ! git apply --check $d/patch.diff 2>/dev/null; then echo "$name: PATCH-DOES-NOT-APPLY"; git -C /repo worktree remove --force $wt; exit 3; fi
git apply $d/patch.diff
pkgs=$(grep '^+++ b/' $d/patch.diff | sed 's|+++ b/||' | xargs -n1 dirname | sort -u | sed 's|^|./|')
demodir=$(head -12 $d/demo_test.go | grep -o 'pkg/[A-Za-z0-9_/]*' | head -1)
[ -z "$demodir" ] && demodir=$(echo $pkgs | awk '{print $1}')
tname=$(grep -o 'func TestSeeded[A-Za-z0-9_]*' $d/demo_test.go | head -1 | sed 's/func //')
build=ok; go build ./... >/dev/null 2>&1 || build=FAIL
tests=ok; go test -count=1 $pkgs >/tmp/seed_tests_$name.log 2>&1 || tests=FAIL
cp $d/demo_test.go $demodir/zz_seeded_demo_test.go
with=pass; go test -count=1 -run "^$tname\$" ./$demodir >/tmp/seed_with_$name.log 2>&1 || with=fail
git apply -R $d/patch.diff
rm -f $demodir/zz_seeded_demo_test.go
without=pass; cp $d/demo_test.go $demodir/zz_seeded_demo_test.go; go test -count=1 -run "^$tname\$" ./$demodir >/tmp/seed_without_$name.log 2>&1 || without=fail
rm -f $demodir/zz_seeded_demo_test.go
confirmed=no; [ $build = ok ] && [ $tests = ok ] && [ $with = fail ] && [ $without = pass ] && confirmed=yes
# run our check
cd $wt; git apply $d/patch.diff
out=$(cd /verif && ./bin/gvc -repo $wt -prop $id -tier quick 2>&1 | grep -E "^VIOLATION|^gvc" | cut -c1-220)
cd /; git -C /repo worktree remove --force $wt
caught=no; echo "$out" | grep -q '^VIOLATION' && caught=yes
echo "$name: build=$build tests=$tests demo-with=$with demo-without=$without confirmed=$confirmed caught=$caught"
echo "$out" | grep '^VIOLATION' | sed 's/^/    /' | head -4
if [ $confirmed = yes ]; then
  mkdir -p /verif/seeded/$name; cp $d/patch.diff $d/demo_test.go /verif/seeded/$name/
  python3 - "$d/meta.json" "/verif/seeded/$name/meta.json" "$caught" "$out" "$demodir" "$tname" <<'PY'
import json,sys
m=json.load(open(sys.argv[1]))
m['confirmed_by_builder']={"build":"ok","existing_package_tests":"ok","demo_with_change":"fail","demo_without_change":"pass","demo_dir":sys.argv[5],"demo_test":sys.argv[6],
  "commands":["git apply patch.diff; go build ./...; go test -count=1 <touched packages>; go test -run <demo> (fails); git apply -R; go test -run <demo> (passes)"]}
m['check_result']={"caught_by_quick_check":sys.argv[3]=="yes","check_output":sys.argv[4].splitlines()}
json.dump(m,open(sys.argv[2],'w'),indent=1)
PY
fi
