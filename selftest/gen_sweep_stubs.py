#!/usr/bin/env python3
"""usage: gen_sweep_stubs.py <repo> <prop> <pkgdir>...
Prints, per package, `//@ func X / props <prop>` stubs for every top-level function and
method of the package's non-test Go files (as selected by `go list` for this platform) that
is not yet named by a `//@ func` line in the package's zz_verif_contracts.go. A stub carries
no annotation: the function is then subject to the zero-annotation panic-freedom obligations
only. The output is reviewed and committed by hand; nothing is generated at check time."""
import json, os, re, subprocess, sys
repo, prop = sys.argv[1], sys.argv[2]
env = dict(os.environ, GOFLAGS='-mod=mod', GOPROXY='off', GOSUMDB='off', GOTOOLCHAIN='local')
for pkg in sys.argv[3:]:
    out = subprocess.run(['go', 'list', '-tags', 'verif', '-json', './' + pkg], cwd=repo, env=env, capture_output=True, text=True).stdout
    info = json.loads(out)
    have = set()
    cf = os.path.join(repo, pkg, 'zz_verif_contracts.go')
    if os.path.exists(cf):
        have = set(re.findall(r'^//@ func (\S+)', open(cf).read(), re.M))
    names = []
    for f in info['GoFiles']:
        if f.startswith('zz_verif'):
            continue
        src = open(os.path.join(repo, pkg, f)).read()
        for m in re.finditer(r'^func (?:\((?:\w+ )?\*?(\w+)(?:\[[^\]]*\])?\) )?(\w+)', src, re.M):
            n = (m.group(1) + '.' if m.group(1) else '') + m.group(2)
            if n not in have and m.group(2) != 'init' and n not in names:
                names.append(n)
    print('### ' + pkg + ' package ' + info['Name'])
    for n in names:
        print('//@ func ' + n + '\n//@   props ' + prop)
