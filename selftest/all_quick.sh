#!/bin/bash
# Runs every claimed property's quick check on the current tree, 3 at a time; prints a summary line per property.
cd "$(dirname "$0")/.."
ids=$(python3 -c "import json;print(' '.join(c['property_id'] for c in json.load(open('MANIFEST.json'))['checks']))")
mkdir -p out/allq
for id in $ids; do
  ( ./check $id quick > out/allq/$id.log 2>&1; echo "$id exit=$? $(grep -c '^VIOLATION' out/allq/$id.log) violations; $(tail -1 out/allq/$id.log | cut -c1-160)" ) &
  while [ $(jobs -r | wc -l) -ge 3 ]; do sleep 1; done
done
wait
