#!/bin/bash
# evidence of runs on deliberately changed trees goes to a scratch directory, never to /verif/evidence
export VERIF_EVIDENCE_DIR=/verif/out/selftest-evidence
# usage: run_mutant.sh <prop> <file-relative-to-repo> <sed-expression>
# Applies a one-line mutation to /repo, runs the property's quick check, restores the file.
prop=$1; f=$2; expr=$3
cd /repo || exit 2
if [ -n "$(git -C /repo status --porcelain)" ]; then echo "REFUSING: /repo has uncommitted changes"; exit 9; fi
cp "$f" /tmp/mutant_backup.$$ 
sed -i "$expr" "$f"
if cmp -s "$f" /tmp/mutant_backup.$$; then echo "MUTANT-NOT-APPLIED $expr"; rm /tmp/mutant_backup.$$; exit 3; fi
(cd /verif && ./check "$prop" quick 2>&1 | grep -E "^VIOLATION|^gvc" | cut -c1-200)
cp /tmp/mutant_backup.$$ "$f"; rm /tmp/mutant_backup.$$
