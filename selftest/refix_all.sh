#!/bin/bash
# evidence of runs on deliberately changed trees goes to a scratch directory, never to /verif/evidence
export VERIF_EVIDENCE_DIR=/verif/out/selftest-evidence
# Re-introduces every repaired defect (reverse-applies its fix: commit) and checks that the
# property's quick check reports a violation again. Must-fail corpus for the known findings.
cd /repo || exit 2
if [ -n "$(git status --porcelain)" ]; then echo "REFUSING: /repo dirty"; exit 9; fi
python3 - <<'PY' > /tmp/refix_list.txt
import json
seen=set()
for k in json.load(open('/verif/known_findings.json')):
    if k['status']=='fixed' and (k['commit'],k['property']) not in seen:
        seen.add((k['commit'],k['property'])); print(k['commit'],k['property'])
PY
while read c p; do
  git show $c -- . ':!*zz_verif*' | git apply -R 2>/dev/null || { echo "$c $p: CANNOT-REVERT (later fix touches the same lines)"; git checkout -- . ; continue; }
  out=$(cd /verif && ./check $p quick 2>&1 | grep -c '^VIOLATION')
  git checkout -- .
  echo "$c $p: violations-when-reintroduced=$out"
done < /tmp/refix_list.txt
