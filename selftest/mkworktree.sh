#!/bin/bash
# usage: mkworktree.sh <name>  -> creates /tmp/wt/<name>: a scratch worktree of /repo HEAD without the verif contract files
set -e
n=$1
git -C /repo worktree add --detach /tmp/wt/$n HEAD >/dev/null 2>&1
cd /tmp/wt/$n
find . -name zz_verif_contracts.go -delete
git -c user.name=builder -c user.email=b@x commit -qam "scratch: drop verification-only files" || true
echo /tmp/wt/$n
