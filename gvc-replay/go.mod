module gvcreplay

go 1.22
