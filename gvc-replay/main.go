// gvc-replay runs a replay test file produced by gvc against the real code in /repo
// (injected in-package with go test -overlay; nothing is written to the repository).
package main

import (
	"bufio"
	"encoding/json"
	"fmt"
	"os"
	"os/exec"
	"path/filepath"
	"strings"
)

func main() {
	if len(os.Args) < 2 {
		fmt.Fprintln(os.Stderr, "usage: gvc-replay <replay.go>")
		os.Exit(2)
	}
	path := os.Args[1]
	f, err := os.Open(path)
	if err != nil {
		fmt.Fprintln(os.Stderr, err)
		os.Exit(2)
	}
	// header: // gvc-replay pkgdir=<dir relative to repo> run=<TestName>
	pkgdir, run := "", "TestVerifReplay"
	sc := bufio.NewScanner(f)
	for sc.Scan() {
		l := sc.Text()
		if strings.HasPrefix(l, "// gvc-replay ") {
			for _, kv := range strings.Fields(l[len("// gvc-replay "):]) {
				if strings.HasPrefix(kv, "pkgdir=") {
					pkgdir = kv[7:]
				}
				if strings.HasPrefix(kv, "run=") {
					run = kv[4:]
				}
			}
			break
		}
	}
	f.Close()
	if pkgdir == "" {
		fmt.Fprintln(os.Stderr, "no gvc-replay header in", path)
		os.Exit(2)
	}
	repo := os.Getenv("VERIF_REPO")
	if repo == "" {
		repo = "/repo"
	}
	abs, _ := filepath.Abs(path)
	dst := filepath.Join(repo, pkgdir, "zz_verif_replay_test.go")
	ov, _ := json.Marshal(map[string]any{"Replace": map[string]string{dst: abs}})
	tmp, _ := os.CreateTemp("", "gvcov*.json")
	tmp.Write(ov)
	tmp.Close()
	defer os.Remove(tmp.Name())
	cmd := exec.Command("go", "test", "-tags=verif", "-overlay", tmp.Name(), "-vet=off", "-count=1", "-timeout", "60s", "-run", "^"+run+"$", "./"+pkgdir)
	cmd.Dir = repo
	cmd.Env = append(os.Environ(), "GOFLAGS=-mod=mod", "GOPROXY=off", "GOSUMDB=off", "GOTOOLCHAIN=local")
	cmd.Stdout, cmd.Stderr = os.Stdout, os.Stderr
	if err := cmd.Run(); err != nil {
		fmt.Println("REPLAY: the violation reproduces on the real code")
		os.Exit(1)
	}
	fmt.Println("REPLAY: the real code passes this input")
}
