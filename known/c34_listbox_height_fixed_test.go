// gvc-replay pkgdir=pkg/cli/tk run=TestVerifFixedC34ListBoxHeight
// Demonstration of the list-box defect repaired by the "fix:" commit recorded in
// known_findings.json (obligation tk.listBox.renderVertical#inv-pres:1@loop@1): a
// multi-line item straddling the bottom edge was cropped to the OVERFLOW count
// instead of the remaining room, so the widget rendered more lines than its height.
package tk

import (
	"testing"

	"src.elv.sh/pkg/ui"
)

type verifItems []string

func (p verifItems) Show(i int) ui.Text { return ui.T(p[i]) }
func (p verifItems) Len() int           { return len(p) }

func TestVerifFixedC34ListBoxHeight(t *testing.T) {
	w := NewListBox(ListBoxSpec{State: ListBoxState{Items: verifItems{"a", "b1\nb2\nb3\nb4\nb5"}, Selected: 0}})
	for h := 1; h <= 4; h++ {
		if buf := w.Render(10, h); len(buf.Lines) > h {
			t.Errorf("height %d: rendered %d lines", h, len(buf.Lines))
		}
	}
}
