// gvc-replay pkgdir=pkg/eval/vals run=TestVerifKnownC09
// Known finding C09 (vals.verifCmp3#post:num-transitive-mixed): compare is not
// transitive across exact and inexact numbers, because an int is converted to
// float64 (rounding) when compared with a float64.
package vals

import "testing"

func TestVerifKnownC09(t *testing.T) {
	a := 1<<53 + 1 // int, not representable as float64
	b := float64(1 << 53)
	c := 1 << 53 // int
	ab, bc, ac := Cmp(a, b), Cmp(b, c), Cmp(a, c)
	if (ab == CmpLess || ab == CmpEqual) && (bc == CmpLess || bc == CmpEqual) && !(ac == CmpLess || ac == CmpEqual) {
		t.Fatalf("compare not transitive: Cmp(2^53+1, 2^53.0)=%v Cmp(2^53.0, 2^53)=%v but Cmp(2^53+1, 2^53)=%v", ab, bc, ac)
	}
}
