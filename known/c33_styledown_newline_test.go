// gvc-replay pkgdir=pkg/ui/styledown run=TestVerifKnownC33StyledNewline
// Known finding C33 (bounded:c33-styledown): styledown notation cannot carry the
// style of a newline character, and Derender drops it silently, so
// Render(Derender(t)) != t whenever a non-default-styled segment contains "\n".
package styledown

import (
	"reflect"
	"testing"

	"src.elv.sh/pkg/ui"
)

func TestVerifKnownC33StyledNewline(t *testing.T) {
	txt := ui.Text{&ui.Segment{Style: ui.Style{Bold: true}, Text: "a\n"}}
	src, err := Derender(txt, "")
	if err != nil {
		t.Fatal(err)
	}
	back, err := Render(src)
	if err != nil {
		t.Fatal(err)
	}
	if !reflect.DeepEqual(back, txt) {
		t.Fatalf("Render(Derender(bold \"a\\n\")) = %v (markup %q): the newline lost its style", back, src)
	}
}
