// gvc-replay pkgdir=pkg/eval run=TestVerifFixedPeach
// Demonstrations of the two peach defects repaired by the "fix:" commits recorded in
// known_findings.json (obligations eval.peach$1#exit:slot-held-when-task-starts and
// eval.peach$1#exit:break-rechecked-after-waiting-for-a-slot). They fail on the tree before
// the fixes and pass after.
package eval

import (
	"context"
	"sync/atomic"
	"testing"
	"time"

	"src.elv.sh/pkg/parse"
)

// C20: with &num-workers=1 no callback may start after one has broken out (like each).
func TestVerifFixedPeachOneWorkerBreak(t *testing.T) {
	for round := 0; round < 50; round++ {
		ev := NewEvaler()
		port, collect, err := ValueCapturePort()
		if err != nil {
			t.Fatal(err)
		}
		err = ev.Eval(parse.Source{Name: "[test]", Code: "peach &num-workers=1 {|x| put $x; if (== $x 2) { break } } [1 2 3 4 5]"},
			EvalCfg{Ports: []*Port{DummyInputPort, port, DummyOutputPort}})
		if err != nil {
			t.Fatal(err)
		}
		out := collect()
		if len(out) != 2 {
			t.Fatalf("round %d: peach &num-workers=1 with a break at 2 output %v, each outputs [1 2]", round, out)
		}
	}
}

// C19: when the interrupt arrives while peach waits for a worker slot, no task may start
// without a slot (the bound would be exceeded and Release later panics).
func TestVerifFixedPeachInterruptedAcquire(t *testing.T) {
	ev := NewEvaler()
	ctx, cancel := context.WithCancel(context.Background())
	unblock := make(chan struct{})
	var running, maxRunning int32
	enter := func() {
		n := atomic.AddInt32(&running, 1)
		for {
			m := atomic.LoadInt32(&maxRunning)
			if n <= m || atomic.CompareAndSwapInt32(&maxRunning, m, n) {
				break
			}
		}
	}
	ev.ExtendGlobal(BuildNs().AddGoFns(map[string]any{
		"enter": enter,
		"leave": func() { atomic.AddInt32(&running, -1) },
		"cancel-and-block": func() {
			cancel()
			<-unblock
		},
	}))
	go func() {
		time.Sleep(300 * time.Millisecond)
		close(unblock)
	}()
	ev.Eval(parse.Source{Name: "[test]", Code: "peach &num-workers=1 {|x| enter; if (== $x 1) { cancel-and-block } else { sleep 0.1s }; leave } [1 2 3]"},
		EvalCfg{Ports: []*Port{DummyInputPort, DummyOutputPort, DummyOutputPort}, Interrupts: ctx})
	time.Sleep(100 * time.Millisecond)
	if m := atomic.LoadInt32(&maxRunning); m > 1 {
		t.Fatalf("peach &num-workers=1 ran %d callbacks at once after an interrupt", m)
	}
}
