// gvc-replay pkgdir=pkg/mods/str run=TestVerifKnownC17RepeatAlloc
// Known finding C17 (str.repeat#alloc:Repeat@1): str:repeat accepts any count
// whose result length fits in an int, but a result longer than 2^48 bytes cannot
// be allocated: strings.Repeat panics in makeslice and the interpreter crashes
// ("str:repeat a 300000000000000").
package str

import "testing"

func TestVerifKnownC17RepeatAlloc(t *testing.T) {
	defer func() {
		if r := recover(); r != nil {
			t.Fatalf("str:repeat a 300000000000000 panicked: %v", r)
		}
	}()
	repeat("a", 300000000000000)
}
