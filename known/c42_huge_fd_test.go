// gvc-replay pkgdir=pkg/eval run=TestVerifKnownC42HugeFd
// Known finding C42/C17 (eval.redirOp.exec#pre:growAccess:fd-bounded@1): a huge
// destination fd makes growAccess allocate a port table of that size
// ("echo hi 1000000000000>&2" dies with an unrecoverable out-of-memory error).
// The replay uses a smaller, harmless fd and shows the table growing to fd+1 entries.
package eval

import "testing"

func TestVerifKnownC42HugeFd(t *testing.T) {
	var ports []*Port
	growAccess(&ports, 3000000)
	if len(ports) > 1048576 {
		t.Fatalf("port table grew to %d entries for one redirection to fd 3000000: the allocation is unbounded in the fd number", len(ports))
	}
}
