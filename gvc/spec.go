package main

import (
	"fmt"
	"go/token"
	"go/types"
	"math/big"
	"strconv"
	"strings"

	"golang.org/x/tools/go/packages"
)

type Scope struct {
	v       *FnV
	vars    map[string]Value
	pkg     *packages.Package
	pos     token.Pos
	old     *State
	oldVars map[string]Value
	callee  bool
	oldLocals bool // old() is an iteration-start state: locals resolve in it as well
}

func (sc *Scope) with(vars map[string]Value) *Scope {
	n := *sc
	n.vars = map[string]Value{}
	for k, v := range sc.vars {
		n.vars[k] = v
	}
	for k, v := range vars {
		n.vars[k] = v
	}
	return &n
}

// specType resolves a type name used in the contract language.
func (v *FnV) specType(name string, pkg *packages.Package) (types.Type, error) {
	switch name {
	case "int":
		return tInt, nil
	case "bool":
		return tBool, nil
	case "string":
		return tString, nil
	case "rune", "int32":
		return tRune, nil
	case "byte", "uint8":
		return tByte, nil
	case "float64":
		return tFloat64, nil
	case "uint32":
		return types.Typ[types.Uint32], nil
	case "uint64":
		return types.Typ[types.Uint64], nil
	case "int64":
		return types.Typ[types.Int64], nil
	case "uint":
		return types.Typ[types.Uint], nil
	case "uintptr":
		return types.Typ[types.Uintptr], nil
	case "mathint":
		return nil, nil
	case "any":
		return types.Universe.Lookup("any").Type(), nil
	case "error":
		return types.Universe.Lookup("error").Type(), nil
	}
	if strings.HasPrefix(name, "*") {
		t, err := v.specType(name[1:], pkg)
		if err != nil {
			return nil, err
		}
		return types.NewPointer(t), nil
	}
	if strings.HasPrefix(name, "[]") {
		t, err := v.specType(name[2:], pkg)
		if err != nil {
			return nil, err
		}
		return types.NewSlice(t), nil
	}
	if pkg == nil {
		return nil, fmt.Errorf("unknown type %q", name)
	}
	if k := strings.Index(name, "."); k > 0 && !strings.ContainsAny(name, "*[]") {
		for _, imp := range pkg.Types.Imports() {
			if imp.Name() == name[:k] {
				if o := imp.Scope().Lookup(name[k+1:]); o != nil {
					if tn, ok := o.(*types.TypeName); ok {
						return tn.Type(), nil
					}
				}
			}
		}
	}
	tv, err := types.Eval(v.c.fset, pkg.Types, token.NoPos, name)
	if err != nil {
		return nil, fmt.Errorf("type %q: %v", name, err)
	}
	if !tv.IsType() {
		return nil, fmt.Errorf("%q is not a type", name)
	}
	return tv.Type, nil
}

func (v *FnV) spec(st *State, e *SExpr, sc *Scope) (val Value, err error) {
	defer func() {
		if r := recover(); r != nil {
			if se, ok := r.(specErr); ok {
				err = fmt.Errorf("%s (in %q)", string(se), e.String())
				return
			}
			panic(r)
		}
	}()
	return v.sp(st, e, sc), nil
}

func sfail(format string, args ...any) { panic(specErr(fmt.Sprintf(format, args...))) }

func (v *FnV) spBool(st *State, e *SExpr, sc *Scope) string {
	val := v.sp(st, e, sc)
	if val.T == nil || !isBoolType(val.T) {
		sfail("boolean expected: %s", e.String())
	}
	return val.S
}

func (v *FnV) sp(st *State, e *SExpr, sc *Scope) Value {
	switch e.Op {
	case "lit":
		n, ok := new(big.Int).SetString(strings.ReplaceAll(e.Lit, "_", ""), 0)
		if !ok {
			sfail("bad number %s", e.Lit)
		}
		return Value{T: nil, S: sBig(n)}
	case "str":
		return Value{T: tString, S: v.c.strLit(e.Lit)}
	case "ident":
		return v.spIdent(st, e.Name, sc)
	case "un":
		a := v.sp(st, e.Args[0], sc)
		switch e.Name {
		case "!":
			return Value{T: tBool, S: sNot(a.S)}
		case "-":
			if isFloatType(a.T) {
				return Value{T: a.T, S: sx("fp.neg", a.S)}
			}
			if v.c.bv && a.T != nil {
				return Value{T: a.T, S: sx("bvneg", a.S)}
			}
			if n, ok := litInt(a.S); ok {
				return Value{T: a.T, S: sBig(new(big.Int).Neg(n))}
			}
			return Value{T: a.T, S: sx("-", a.S)}
		case "*":
			pt, ok := a.T.Underlying().(*types.Pointer)
			if !ok {
				sfail("dereference of non-pointer")
			}
			return Value{T: pt.Elem(), S: v.specLoad(st, pt.Elem(), a.S)}
		}
		sfail("unsupported unary %s", e.Name)
	case "bin":
		return v.spBin(st, e, sc)
	case "ite":
		c := v.spBool(st, e.Args[0], sc)
		a := v.sp(st, e.Args[1], sc)
		b := v.sp(st, e.Args[2], sc)
		t := a.T
		if t == nil {
			t = b.T
		}
		a, b = v.unify(st, a, b)
		return Value{T: t, S: sIte(c, a.S, b.S)}
	case "forall", "exists":
		t, err := v.specType(e.VType, sc.pkg)
		if err != nil {
			sfail("%v", err)
		}
		vars := map[string]Value{}
		var binders, ranges []string
		for _, n := range e.Vars {
			sym := n + "!q"
			vars[n] = Value{T: t, S: sym}
			binders = append(binders, fmt.Sprintf("(%s %s)", sym, v.c.sortOf(t)))
			if r := v.c.rangeOf(t, sym, "alloc!0"); r != "true" && isIntType(t) && t != nil {
				ranges = append(ranges, r)
			}
		}
		q := st.fork()
		q.quiet = true
		nq := len(q.items)
		if len(e.Vars) == 1 && t != nil && isIntType(t) {
			// "forall k :: ... s[k] ..." is encoded over the ABSOLUTE position a = off(s)+k, so that
			// the instantiation pattern is (select arr a) without arithmetic inside it.
			if be := uniformIndexBase(e.Args[0], e.Vars[0]); be != nil {
				if bv, err := v.spec(q, be, sc); err == nil && bv.T != nil {
					off := ""
					if isString(bv.T) {
						off = sx("soff", bv.S)
					} else if v.c.sortOf(bv.T) == sortSlice {
						off = sx("sloff", bv.S)
					}
					if off != "" {
						sym := e.Vars[0] + "!q"
						vars[e.Vars[0]] = Value{T: t, S: "(- " + sym + " " + off + ")"}
						ranges = nil
					}
				}
			}
		}
		body := v.spBool(q, e.Args[0], sc.with(vars))
		// symbols declared while evaluating the body (a variable read for the first time, a heap of
		// a new epoch) must exist in the enclosing script as well
		if !st.quiet {
			for _, it := range q.items[nq:] {
				if it.Decl != "" {
					st.items = append(st.items, it)
				}
			}
			for o, val := range q.env {
				if _, ok := st.env[o]; !ok {
					st.env[o] = val
				}
			}
		}
		if e.Op == "forall" {
			inner := sImp(sAnd(ranges...), body)
			if len(e.Vars) == 1 && !st.quiet && !strings.Contains(inner, "(forall") && !strings.Contains(inner, "(exists") {
				if pats := inferPatterns(inner, e.Vars[0]+"!q"); len(pats) > 0 {
					var ps []string
					for _, p := range pats {
						ps = append(ps, ":pattern ("+p+")")
					}
					return Value{T: tBool, S: fmt.Sprintf("(forall (%s) (! %s %s))", strings.Join(binders, " "), inner, strings.Join(ps, " "))}
				}
			}
			return Value{T: tBool, S: fmt.Sprintf("(forall (%s) %s)", strings.Join(binders, " "), inner)}
		}
		return Value{T: tBool, S: fmt.Sprintf("(exists (%s) %s)", strings.Join(binders, " "), sAnd(append(ranges, body)...))}
	case "field":
		// qualified identifier pkg.Name (constant or variable of an imported package)
		if x := e.Args[0]; x.Op == "ident" && sc.pkg != nil {
			if _, isVar := sc.vars[x.Name]; !isVar {
				for _, imp := range sc.pkg.Types.Imports() {
					if imp.Name() != x.Name {
						continue
					}
					switch o := imp.Scope().Lookup(e.Name).(type) {
					case *types.Const:
						if val, ok := v.c.constVal(o.Val(), o.Type()); ok {
							if bt, ok := o.Type().(*types.Basic); ok && bt.Info()&types.IsUntyped != 0 && bt.Info()&types.IsInteger != 0 {
								val.T = nil
							}
							return val
						}
					case *types.Var:
						return v.getVar(st, o)
					}
				}
			}
		}
		base := v.sp(st, e.Args[0], sc)
		return v.specField(st, base, e.Name)
	case "index":
		base := v.sp(st, e.Args[0], sc)
		idx := v.sp(st, e.Args[1], sc)
		return v.specIndex(st, base, idx)
	case "slice":
		base := v.sp(st, e.Args[0], sc)
		lo := "0"
		if e.Args[1] != nil {
			lo = v.sp(st, e.Args[1], sc).S
		}
		if isString(base.T) {
			hi := sx("slen", base.S)
			if e.Args[2] != nil {
				hi = v.sp(st, e.Args[2], sc).S
			}
			return Value{T: base.T, S: fmt.Sprintf("(mkstr (sbase %s) %s %s)", base.S, sAdd(sx("soff", base.S), lo), sSub(hi, lo))}
		}
		if v.c.sortOf(base.T) == sortSlice {
			hi := sx("sllen", base.S)
			if e.Args[2] != nil {
				hi = v.sp(st, e.Args[2], sc).S
			}
			return Value{T: base.T, S: fmt.Sprintf("(mkslice (sref %s) %s %s %s)", base.S, sAdd(sx("sloff", base.S), lo), sSub(hi, lo), sSub(sx("slcap", base.S), lo))}
		}
		sfail("slice of unsupported type")
	case "assert":
		base := v.sp(st, e.Args[0], sc)
		t, err := v.specType(e.VType, sc.pkg)
		if err != nil {
			sfail("%v", err)
		}
		if !isInterface(base.T) {
			sfail("type assertion on non-interface")
		}
		return Value{T: t, S: v.c.fromIface(base.S, t)}
	case "call":
		return v.spCall(st, e, sc)
	}
	sfail("unsupported spec expression %s", e.Op)
	return Value{}
}

func (v *FnV) specLoad(st *State, t types.Type, ref string) string {
	h := st.heap(heapName(t), "(Array Int "+v.c.sortOf(t)+")")
	val := sSelect(h, ref)
	if !st.quiet {
		// type invariants of loaded values (lengths are non-negative, ints are in range, ...)
		st.assume(v.c.rangeOf(t, val, st.alloc))
	}
	return val
}

func (v *FnV) unify(st *State, a, b Value) (Value, Value) {
	if a.T == nil && b.T != nil {
		a = v.specConv(st, a, b.T)
	} else if b.T == nil && a.T != nil {
		b = v.specConv(st, b, a.T)
	}
	isNil := func(x Value) bool {
		bt, ok := x.T.(*types.Basic)
		return ok && bt.Kind() == types.UntypedNil
	}
	if a.T != nil && b.T != nil {
		if isNil(a) && !isNil(b) {
			a = Value{T: b.T, S: v.c.zeroOf(b.T)}
		} else if isNil(b) && !isNil(a) {
			b = Value{T: a.T, S: v.c.zeroOf(a.T)}
		} else if isInterface(a.T) && !isInterface(b.T) {
			b = Value{T: a.T, S: v.c.toIface(b)}
		} else if isInterface(b.T) && !isInterface(a.T) {
			a = Value{T: b.T, S: v.c.toIface(a)}
		}
	}
	return a, b
}

// specArg converts an argument of a spec function to its parameter type:
// untyped literals get the type, concrete values are boxed into interface parameters.
func (v *FnV) specArg(st *State, a Value, t types.Type) Value {
	a = v.specConv(st, a, t)
	if t != nil && a.T != nil && isInterface(t) && !isInterface(a.T) {
		if bt, ok := a.T.(*types.Basic); ok && bt.Kind() == types.UntypedNil {
			return Value{T: t, S: "nilval"}
		}
		return Value{T: t, S: v.c.toIface(a)}
	}
	return a
}

func (v *FnV) specConv(st *State, a Value, t types.Type) Value {
	if a.T != nil || t == nil {
		return a
	}
	if isFloatType(t) {
		if n, ok := litInt(a.S); ok {
			f, _ := new(big.Float).SetInt(n).Float64()
			return Value{T: t, S: v.c.fpLit(f, t)}
		}
	}
	if v.c.bv && isIntType(t) {
		return v.c.coerceBV(a, t)
	}
	if isIntType(t) {
		return Value{T: t, S: a.S}
	}
	return a
}

func (v *FnV) spIdent(st *State, name string, sc *Scope) Value {
	if val, ok := sc.vars[name]; ok {
		return val
	}
	switch name {
	case "true":
		return Value{T: tBool, S: "true"}
	case "false":
		return Value{T: tBool, S: "false"}
	case "nil":
		return Value{T: types.Typ[types.UntypedNil], S: "0"}
	case "MaxInt", "MaxInt64":
		return Value{S: "9223372036854775807"}
	case "MinInt", "MinInt64":
		return Value{S: "(- 9223372036854775808)"}
	case "MaxInt32":
		return Value{S: "2147483647"}
	case "MaxUint32":
		return Value{S: "4294967295"}
	case "RuneError":
		return Value{T: tRune, S: "65533"}
	case "returned":
		if len(v.returned) > 0 {
			return v.returned[0]
		}
		sfail("returned is only available in exit clauses and in deferred literals")
	case "ncalls":
		if st.ghost == nil {
			sfail("ncalls: the function under verification has no `log` directive")
		}
		return Value{T: tInt, S: st.ghost["lgN"]}
	}
	if !sc.callee {
		if val, ok := v.ghostVars[name]; ok {
			return val
		}
		if strings.HasPrefix(name, "iter") {
			// iterK: the number of elements already processed by range loop K
			if k, err := strconv.Atoi(name[4:]); err == nil {
				want := fmt.Sprintf("range!%d", k)
				for obj, val := range st.env {
					if obj.Name() == want {
						return val
					}
				}
				sfail("iter%d: no range loop %d is active here", k, k)
			}
		}
	}
	if sc.pkg != nil {
		var obj types.Object
		if sc.pos.IsValid() && !sc.callee {
			if inner := sc.pkg.Types.Scope().Innermost(sc.pos); inner != nil {
				_, obj = inner.LookupParent(name, sc.pos)
			}
		}
		if obj == nil {
			obj = sc.pkg.Types.Scope().Lookup(name)
		}
		switch o := obj.(type) {
		case *types.Var:
			val := v.getVar(st, o)
			return val
		case *types.Const:
			if val, ok := v.c.constVal(o.Val(), o.Type()); ok {
				if bt, ok := o.Type().(*types.Basic); ok && bt.Info()&types.IsUntyped != 0 && bt.Info()&types.IsInteger != 0 {
					val.T = nil
				}
				return val
			}
		}
	}
	sfail("unknown identifier %s", name)
	return Value{}
}

func (v *FnV) spBin(st *State, e *SExpr, sc *Scope) Value {
	switch e.Name {
	case "==>":
		a := v.spBool(st, e.Args[0], sc)
		b := v.spBool(st, e.Args[1], sc)
		return Value{T: tBool, S: sImp(a, b)}
	case "<==>":
		a := v.spBool(st, e.Args[0], sc)
		b := v.spBool(st, e.Args[1], sc)
		return Value{T: tBool, S: sEq(a, b)}
	case "&&":
		return Value{T: tBool, S: sAnd(v.spBool(st, e.Args[0], sc), v.spBool(st, e.Args[1], sc))}
	case "||":
		return Value{T: tBool, S: sOr(v.spBool(st, e.Args[0], sc), v.spBool(st, e.Args[1], sc))}
	}
	a := v.sp(st, e.Args[0], sc)
	b := v.sp(st, e.Args[1], sc)
	a, b = v.unify(st, a, b)
	switch e.Name {
	case "===":
		// representational identity (stronger than ==): same SMT term value
		return Value{T: tBool, S: sEq(a.S, b.S)}
	case "==":
		if isBoolType(a.T) && isBoolType(b.T) {
			return Value{T: tBool, S: sEq(a.S, b.S)}
		}
		return Value{T: tBool, S: v.eq(st, a, b, nil)}
	case "!=":
		if isBoolType(a.T) && isBoolType(b.T) {
			return Value{T: tBool, S: sNot(sEq(a.S, b.S))}
		}
		return Value{T: tBool, S: sNot(v.eq(st, a, b, nil))}
	case "<", "<=", ">", ">=":
		op := map[string]token.Token{"<": token.LSS, "<=": token.LEQ, ">": token.GTR, ">=": token.GEQ}[e.Name]
		return Value{T: tBool, S: v.c.cmp(op, a, b)}
	}
	t := a.T
	if t == nil {
		t = b.T
	}
	if isFloatType(t) {
		f := map[string]string{"+": "fp.add", "-": "fp.sub", "*": "fp.mul", "/": "fp.div"}[e.Name]
		if f == "" {
			sfail("unsupported float operator %s", e.Name)
		}
		return Value{T: t, S: sx(f, "RNE", a.S, b.S)}
	}
	if isString(t) && e.Name == "+" {
		return Value{T: t, S: v.concat(st, a.S, b.S)}
	}
	op := map[string]token.Token{"+": token.ADD, "-": token.SUB, "*": token.MUL, "/": token.QUO, "%": token.REM,
		"&": token.AND, "|": token.OR, "^": token.XOR, "<<": token.SHL, ">>": token.SHR, "&^": token.AND_NOT}[e.Name]
	// spec arithmetic is mathematical (no wrap-around) in Int mode
	res, _ := v.c.arith(op, a, b, t, true)
	if res == "" {
		sfail("unsupported operator %s", e.Name)
	}
	// constant folding for readability
	if x, ok := litInt(a.S); ok {
		if y, ok := litInt(b.S); ok && !v.c.bv {
			switch e.Name {
			case "+":
				res = sBig(new(big.Int).Add(x, y))
			case "-":
				res = sBig(new(big.Int).Sub(x, y))
			case "*":
				res = sBig(new(big.Int).Mul(x, y))
			case "<<":
				if y.IsInt64() && y.Int64() >= 0 && y.Int64() < 256 {
					res = sBig(new(big.Int).Lsh(x, uint(y.Int64())))
				}
			}
		}
	}
	return Value{T: t, S: res}
}

func findField(t types.Type, name string) (path []int, ft types.Type, ok bool) {
	if pt, isPtr := t.Underlying().(*types.Pointer); isPtr {
		t = pt.Elem()
	}
	st := structType(t)
	if st == nil {
		return nil, nil, false
	}
	for i := 0; i < st.NumFields(); i++ {
		if st.Field(i).Name() == name {
			return []int{i}, st.Field(i).Type(), true
		}
	}
	for i := 0; i < st.NumFields(); i++ {
		if st.Field(i).Embedded() {
			if p, ft, ok := findField(st.Field(i).Type(), name); ok {
				return append([]int{i}, p...), ft, true
			}
		}
	}
	return nil, nil, false
}

func (v *FnV) specField(st *State, base Value, name string) Value {
	if base.T == nil {
		sfail("field %s of untyped value", name)
	}
	// pseudo-fields
	switch v.c.sortOf(base.T) {
	case sortVal:
		switch name {
		case "tag!":
			return Value{T: nil, S: sx("vtag", base.S)}
		}
	}
	path, _, ok := findField(base.T, name)
	if !ok {
		sfail("no field %s in %s", name, base.T)
	}
	cur := base
	for _, i := range path {
		t := cur.T
		if pt, ok := t.Underlying().(*types.Pointer); ok {
			cur = Value{T: pt.Elem(), S: v.specLoad(st, pt.Elem(), cur.S)}
			t = cur.T
		}
		stt := structType(t)
		cur = Value{T: stt.Field(i).Type(), S: v.c.fieldGet(t, cur.S, i)}
	}
	return cur
}

func (v *FnV) specIndex(st *State, base, idx Value) Value {
	if base.T == nil {
		sfail("index of untyped value")
	}
	// an index of the form (- a OFF) where OFF is this very sequence's offset denotes absolute position a
	absPos := func(off string) (string, bool) {
		suffix := " " + off + ")"
		if strings.HasPrefix(idx.S, "(- ") && strings.HasSuffix(idx.S, suffix) {
			a := idx.S[3 : len(idx.S)-len(suffix)]
			if strings.HasSuffix(a, "!q") && !strings.ContainsAny(a, " ()") {
				return a, true
			}
		}
		return "", false
	}
	if isString(base.T) {
		if a, ok := absPos(sx("soff", base.S)); ok {
			return Value{T: tByte, S: sSelect(sx("sbase", base.S), a)}
		}
		return Value{T: tByte, S: sx("sat", base.S, idx.S)}
	}
	switch u := base.T.Underlying().(type) {
	case *types.Slice:
		_, h := v.elemHeap(st, u.Elem())
		if a, ok := absPos(sx("sloff", base.S)); ok {
			return Value{T: u.Elem(), S: sSelect(sSelect(h, sx("sref", base.S)), a)}
		}
		return Value{T: u.Elem(), S: sSelect(sSelect(h, sx("sref", base.S)), sAdd(sx("sloff", base.S), idx.S))}
	case *types.Array:
		return Value{T: u.Elem(), S: sSelect(base.S, idx.S)}
	case *types.Pointer:
		if at, ok := u.Elem().Underlying().(*types.Array); ok {
			return Value{T: at.Elem(), S: sSelect(v.specLoad(st, u.Elem(), base.S), idx.S)}
		}
	case *types.Map:
		val, _ := v.mapLookup(st, u, base, v.specConv(st, idx, u.Key()))
		return val
	}
	sfail("index of unsupported type %s", base.T)
	return Value{}
}

func (v *FnV) spCall(st *State, e *SExpr, sc *Scope) Value {
	fn := e.Args[0]
	args := e.Args[1:]
	if fn.Op == "field" {
		// dotted name: pkg.Type.Method or Type.Method
		var parts []string
		cur := fn
		for cur.Op == "field" {
			parts = append([]string{cur.Name}, parts...)
			cur = cur.Args[0]
		}
		if cur.Op == "ident" {
			parts = append([]string{cur.Name}, parts...)
			var avs []Value
			for _, a := range args {
				avs = append(avs, v.sp(st, a, sc))
			}
			if val, ok := v.functionalSpecCall(st, strings.Join(parts, "."), avs, sc); ok {
				return val
			}
		}
		sfail("unknown function %s", fn.String())
	}
	if fn.Op != "ident" {
		sfail("only named spec functions can be called")
	}
	name := fn.Name
	arg := func(i int) Value {
		if i >= len(args) {
			sfail("%s: missing argument", name)
		}
		return v.sp(st, args[i], sc)
	}
	if val, ok := v.spLog(st, name, e, sc); ok {
		return val
	}
	switch name {
	case "old":
		if sc.old == nil {
			sfail("old() not available here")
		}
		os := sc.old.fork()
		os.quiet = st.quiet
		base := len(os.items)
		osc := *sc
		osc.vars = map[string]Value{}
		for k, val := range sc.oldVars {
			osc.vars[k] = val
		}
		// quantified variables stay visible
		for k, val := range sc.vars {
			if strings.Contains(val.S, "!q") {
				osc.vars[k] = val
			}
		}
		osc.old = nil
		val := v.sp(os, args[0], &osc)
		if !st.quiet {
			st.items = append(st.items, os.items[base:]...)
		}
		return val
	case "len":
		a := arg(0)
		switch {
		case isString(a.T):
			return Value{T: tInt, S: sx("slen", a.S)}
		case a.T != nil && v.c.sortOf(a.T) == sortSlice:
			return Value{T: tInt, S: sx("sllen", a.S)}
		}
		if a.T != nil {
			if at, ok := a.T.Underlying().(*types.Array); ok {
				return Value{T: tInt, S: fmt.Sprint(at.Len())}
			}
		}
		sfail("len of unsupported type")
	case "cap":
		a := arg(0)
		return Value{T: tInt, S: sx("slcap", a.S)}
	case "haskey":
		m, k := arg(0), arg(1)
		mt, ok := m.T.Underlying().(*types.Map)
		if !ok {
			sfail("haskey: map expected")
		}
		_, present := v.mapLookup(st, mt, m, v.specConv(st, k, mt.Key()))
		return Value{T: tBool, S: present}
	case "istype":
		a := arg(0)
		t, err := v.specType(args[1].VType, sc.pkg)
		if err != nil {
			sfail("%v", err)
		}
		return Value{T: tBool, S: v.c.hasType(a.S, t)}
	case "fresh":
		a := arg(0)
		ref := a.S
		if v.c.sortOf(a.T) == sortSlice {
			ref = sx("sref", a.S)
		}
		oldAlloc := "alloc!0"
		if sc.old != nil {
			oldAlloc = sc.old.alloc
		}
		return Value{T: tBool, S: sGt(ref, oldAlloc)}
	case "isnan":
		return Value{T: tBool, S: sx("fp.isNaN", arg(0).S)}
	case "isinf":
		return Value{T: tBool, S: sx("fp.isInfinite", arg(0).S)}
	case "ref":
		a := arg(0)
		if v.c.sortOf(a.T) == sortSlice {
			return Value{T: nil, S: sx("sref", a.S)}
		}
		return Value{T: nil, S: a.S}
	case "mathint":
		a := arg(0)
		if v.c.bv && a.T != nil {
			_, signed := intInfo(a.T)
			if signed {
				sfail("mathint of signed bit-vector unsupported")
			}
			return Value{T: nil, S: sx("bv2nat", a.S)}
		}
		return Value{T: nil, S: a.S}
	case "runeat", "sizeat":
		v.c.utf8Fns()
		a0, a1 := arg(0), arg(1)
		if !st.quiet {
			st.assume(v.c.utf8Facts(a0.S, a1.S))
		}
		if name == "runeat" {
			return Value{T: tRune, S: sx("dr", a0.S, a1.S)}
		}
		return Value{T: tInt, S: sx("dz", a0.S, a1.S)}
	case "lastrune":
		v.c.utf8Fns()
		return Value{T: tRune, S: sx("lr", arg(0).S, arg(1).S)}
	case "lastsize":
		v.c.utf8Fns()
		return Value{T: tInt, S: sx("lz", arg(0).S, arg(1).S)}
	case "boundary":
		v.c.utf8Fns()
		return Value{T: tBool, S: sx("bd", arg(0).S, arg(1).S)}
	case "runelen":
		v.c.utf8Fns()
		return Value{T: tInt, S: sx("rl", arg(0).S)}
	case "nl":
		v.c.nlFns()
		s := arg(0)
		return Value{T: tInt, S: sx("nl", sx("sbase", s.S), sAdd(sx("soff", s.S), arg(1).S), sAdd(sx("soff", s.S), arg(2).S))}
	case "sindex":
		v.c.glob("sindex", "(declare-fun sindex (Str Str) Int)")
		a, b := arg(0), arg(1)
		if !st.quiet {
			st.assume(v.c.sindexFacts(v, a.S, b.S))
		}
		return Value{T: tInt, S: sx("sindex", a.S, b.S)}
	case "bigval":
		// mathematical value of a *big.Int (ghost heap of the math/big model)
		a := arg(0)
		return Value{T: nil, S: v.bigInt(st, a.S)}
	case "ratnum_times", "rat_eq_frac":
		// rat_eq_frac(p, n, d): the *big.Rat p has the value n/d (d != 0), stated without division
		a := arg(0)
		n, d := arg(1), arg(2)
		return Value{T: tBool, S: sEq(sx("*", v.bigRat(st, a.S), sx("to_real", d.S)), sx("to_real", n.S))}
	case "allocated":
		// the pointer refers to an object that exists now (nil included): ref <= current allocation counter
		return Value{T: tBool, S: sLe(arg(0).S, st.alloc)}
	case "stroff":
		// absolute offset of a string in its backing array (two strings with the same backing array and
		// adjacent offsets are adjacent pieces of one string)
		return Value{T: nil, S: sx("soff", arg(0).S)}
	case "samebase":
		return Value{T: tBool, S: sEq(sx("sbase", arg(0).S), sx("sbase", arg(1).S))}
	case "samekey":
		// two strings are the same map key, i.e. have equal contents (skey is injective on contents)
		v.c.glob("skey", "(declare-fun skey (Str) Int)",
			"(assert (forall ((a!k Str) (b!k Str)) (! (= (str_eq a!k b!k) (= (skey a!k) (skey b!k))) :pattern ((skey a!k) (skey b!k)))))")
		return Value{T: tBool, S: sEq(sx("skey", arg(0).S), sx("skey", arg(1).S))}
	case "hasprefix":
		// strings.HasPrefix(s, p), as modelled for the code
		a, b := arg(0), arg(1)
		return Value{T: tBool, S: sAnd(sGe(sx("slen", a.S), sx("slen", b.S)), sx("str_eq", fmt.Sprintf("(mkstr (sbase %s) (soff %s) (slen %s))", a.S, a.S, b.S), b.S))}
	case "recvid":
		// identity of an interface value's dynamic (pointer) value, as recorded by callfn for interface receivers
		return Value{T: nil, S: sx("vint", arg(0).S)}
	case "ipow":
		// a^b for b >= 0 (the function behind the model of big.Int.Exp)
		v.c.ipowFns()
		return Value{T: nil, S: sx("ipow", arg(0).S, arg(1).S)}
	case "ratfloat":
		// the float64 big.Rat.Float64 returns for the value of p (the nearest double; abstract)
		v.c.glob("r2f", "(declare-fun r2f (Real) F64)")
		return Value{T: tFloat64, S: sx("r2f", v.bigRat(st, arg(0).S))}
	case "rat_is_zero":
		return Value{T: tBool, S: sEq(v.bigRat(st, arg(0).S), "0.0")}
	case "strlt":
		v.c.strLtFns()
		return Value{T: tBool, S: sx("str_lt", arg(0).S, arg(1).S)}
	case "tofloat":
		a := arg(0)
		if isFloatType(a.T) {
			return a
		}
		if a.T == nil {
			a.T = tInt
		}
		return Value{T: tFloat64, S: v.intToFloat(st, a, tFloat64)}
	case "atoi_ok":
		v.c.atoiFns()
		return Value{T: tBool, S: sx("atoi_ok", arg(0).S)}
	case "atoi_val":
		v.c.atoiFns()
		return Value{T: tInt, S: sx("atoi_val", arg(0).S)}
	case "atoi_range":
		v.c.atoiFns()
		return Value{T: nil, S: sx("atoi_range", arg(0).S)}
	case "streq":
		a, b := arg(0), arg(1)
		return Value{T: tBool, S: v.eq(st, a, b, nil)}
	}
	// user-defined spec functions
	if sf := v.e.lookupSpec(sc.pkg, name); sf != nil {
		var avs []Value
		for i := range args {
			avs = append(avs, arg(i))
		}
		return v.applySpecFn(st, sf, avs, sc)
	}
	{
		var avs []Value
		for i := range args {
			avs = append(avs, arg(i))
		}
		if val, ok := v.functionalSpecCall(st, name, avs, sc); ok {
			return val
		}
	}
	sfail("unknown spec function %s", name)
	return Value{}
}

func (e *Engine) lookupSpec(pkg *packages.Package, name string) *SpecFn {
	if pkg != nil {
		if sf, ok := e.cs.Specs[pkg.PkgPath+"."+name]; ok {
			return sf
		}
	}
	for _, sf := range e.cs.Specs {
		if sf.Name == name {
			return sf
		}
	}
	return nil
}

func (v *FnV) applySpecFn(st *State, sf *SpecFn, args []Value, sc *Scope) Value {
	if len(args) != len(sf.Params) {
		sfail("%s: want %d arguments", sf.Name, len(sf.Params))
	}
	pkg := v.e.pkgs[sf.Pkg]
	rt, err := v.specType(sf.RType, pkg)
	if err != nil {
		sfail("%v", err)
	}
	if sf.Body != nil && !sf.Rec {
		// macro expansion
		vars := map[string]Value{}
		for i, p := range sf.Params {
			pt, err := v.specType(sf.PTypes[i], pkg)
			if err != nil {
				sfail("%v", err)
			}
			vars[p] = v.specArg(st, args[i], pt)
		}
		nsc := &Scope{v: v, vars: vars, pkg: pkg, old: sc.old, oldVars: sc.oldVars, callee: true}
		val := v.sp(st, sf.Body, nsc)
		val.T = rt
		if rt == nil || (isIntType(rt) && sf.RType == "mathint") {
			val.T = nil
		}
		return val
	}
	// declared (uninterpreted or recursive) function
	sym := "spec!" + mangle(sf.Name)
	key := "specfn:" + sf.Pkg + "." + sf.Name
	if !v.c.globSeen[key] {
		var ps, psorts []string
		vars := map[string]Value{}
		for i, p := range sf.Params {
			pt, err := v.specType(sf.PTypes[i], pkg)
			if err != nil {
				sfail("%v", err)
			}
			s := v.c.sortOf(pt)
			ps = append(ps, fmt.Sprintf("(%s!p %s)", p, s))
			psorts = append(psorts, s)
			vars[p] = Value{T: pt, S: p + "!p"}
		}
		rs := v.c.sortOf(rt)
		if sf.Body == nil {
			v.c.glob(key, fmt.Sprintf("(declare-fun %s (%s) %s)", sym, strings.Join(psorts, " "), rs))
		} else {
			v.c.globSeen[key] = true // allow recursion
			q := st.fork()
			q.quiet = true
			nsc := &Scope{v: v, vars: vars, pkg: pkg, callee: true}
			body := v.sp(q, sf.Body, nsc)
			v.c.globDecl = append(v.c.globDecl, fmt.Sprintf("(define-fun-rec %s (%s) %s %s)", sym, strings.Join(ps, " "), rs, body.S))
		}
	}
	var as []string
	for i, a := range args {
		pt, _ := v.specType(sf.PTypes[i], pkg)
		as = append(as, v.specArg(st, a, pt).S)
	}
	if len(as) == 0 {
		return Value{T: rt, S: sym}
	}
	return Value{T: rt, S: sx(sym, as...)}
}
