package main

import (
	"go/ast"
	"go/types"
)

// freshCtx gives every function (and lemma) its own declaration context, so that
// sorts and uninterpreted functions declared under one integer encoding (bv / Int)
// never leak into a VC generated under the other. Abstractions and trusted-base
// records are shared across the run.
func (e *Engine) freshCtx() *Ctx {
	c := newCtx(e.fset)
	if e.ctx != nil {
		c.abstractions = e.ctx.abstractions
		c.trusted = e.ctx.trusted
	}
	return c
}

// globalInitType returns the pointer type *T of a package-level variable initialised with &T{...}.
func (e *Engine) globalInitType(vr *types.Var) types.Type {
	for _, p := range e.pkgs {
		if p.Types != vr.Pkg() {
			continue
		}
		for _, f := range p.Syntax {
			for _, d := range f.Decls {
				gd, ok := d.(*ast.GenDecl)
				if !ok {
					continue
				}
				for _, sp := range gd.Specs {
					vs, ok := sp.(*ast.ValueSpec)
					if !ok {
						continue
					}
					for i, n := range vs.Names {
						if p.TypesInfo.Defs[n] == vr && i < len(vs.Values) {
							return p.TypesInfo.TypeOf(vs.Values[i])
						}
					}
				}
			}
		}
	}
	return nil
}
