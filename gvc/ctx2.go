package main

// freshCtx gives every function (and lemma) its own declaration context, so that
// sorts and uninterpreted functions declared under one integer encoding (bv / Int)
// never leak into a VC generated under the other. Abstractions and trusted-base
// records are shared across the run.
func (e *Engine) freshCtx() *Ctx {
	c := newCtx(e.fset)
	if e.ctx != nil {
		c.abstractions = e.ctx.abstractions
		c.trusted = e.ctx.trusted
	}
	return c
}
