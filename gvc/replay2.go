package main

import (
	"fmt"
	"go/types"
	"os"
	"os/exec"
	"path/filepath"
	"strings"
)

// guessType guesses the Go type of a spec expression for the lazy if-expression helper.
func (g *goTr) guessType(e *SExpr) string {
	switch e.Op {
	case "str":
		return "string"
	case "slice":
		return "string"
	case "forall", "exists":
		return "bool"
	case "un":
		if e.Name == "!" {
			return "bool"
		}
	case "bin":
		switch e.Name {
		case "==", "!=", "<", "<=", ">", ">=", "&&", "||", "==>", "<==>", "===":
			return "bool"
		}
		return g.guessType(e.Args[0])
	case "ident":
		if e.Name == "true" || e.Name == "false" {
			return "bool"
		}
	case "ite":
		t := g.guessType(e.Args[1])
		if t == "int" {
			t = g.guessType(e.Args[2])
		}
		return t
	case "call":
		if e.Args[0].Op == "ident" {
			switch e.Args[0].Name {
			case "istype", "atoi_ok", "isnan", "isinf":
				return "bool"
			}
			if g.specs != nil {
				if sf := g.specs(e.Args[0].Name); sf != nil {
					switch sf.RType {
					case "bool", "string", "int", "float64", "rune", "byte":
						return sf.RType
					}
				}
			}
		}
	}
	return "int"
}

// flattenParams expands struct-typed parameters into their scalar leaves so
// that goLiterals only sees ints, bools, floats, strings and interfaces, and
// returns a function that reassembles the per-parameter Go literals.
func (ri *ReplayInfo) flattenParams(c *Ctx) (*ReplayInfo, func([]string) []string, bool) {
	flat := *ri
	flat.Types, flat.Terms = nil, nil
	type node struct {
		leaf   bool
		tname  string
		fields []string
		kids   []*node
	}
	qual := func(p *types.Package) string {
		if p.Name() == ri.PkgName {
			return ""
		}
		return p.Name()
	}
	var build func(t types.Type, term string, depth int) (*node, bool)
	build = func(t types.Type, term string, depth int) (*node, bool) {
		switch {
		case isIntType(t), isBoolType(t), isFloatType(t), isString(t), isInterface(t):
			flat.Types = append(flat.Types, t)
			flat.Terms = append(flat.Terms, term)
			return &node{leaf: true}, true
		}
		if st := structType(t); st != nil && depth < 3 {
			if _, named := types.Unalias(t).(*types.Named); !named {
				return nil, false
			}
			n := &node{tname: strings.TrimPrefix(types.TypeString(t, qual), ".")}
			for i := 0; i < st.NumFields(); i++ {
				f := st.Field(i)
				if !f.Exported() && f.Pkg() != nil && f.Pkg().Name() != ri.PkgName {
					return nil, false
				}
				k, ok := build(f.Type(), c.fieldGet(t, term, i), depth+1)
				if !ok {
					return nil, false
				}
				n.fields = append(n.fields, f.Name())
				n.kids = append(n.kids, k)
			}
			return n, true
		}
		return nil, false
	}
	var roots []*node
	for i, t := range ri.Types {
		n, ok := build(t, ri.Terms[i], 0)
		if !ok {
			return nil, nil, false
		}
		roots = append(roots, n)
	}
	assemble := func(lits []string) []string {
		pos := 0
		var render func(n *node) string
		render = func(n *node) string {
			if n.leaf {
				s := lits[pos]
				pos++
				return s
			}
			var parts []string
			for i, k := range n.kids {
				parts = append(parts, fmt.Sprintf("%s: %s", n.fields[i], render(k)))
			}
			return n.tname + "{" + strings.Join(parts, ", ") + "}"
		}
		var out []string
		for _, n := range roots {
			out = append(out, render(n))
		}
		return out
	}
	return &flat, assemble, true
}

// knownStillReproduces re-runs the recorded replay of a known finding against the
// real code. If the recorded input no longer fails while the obligation still
// does not discharge, the failure is a DIFFERENT violation and is reported as such.
func (r *Report) knownStillReproduces(kf *KnownFinding) bool {
	if kf.Replay == "" {
		return true
	}
	cmd := exec.Command(filepath.Join(r.verif, "bin", "gvc-replay"), kf.Replay)
	cmd.Env = append(os.Environ(), "VERIF_REPO="+r.repo)
	out, err := cmd.CombinedOutput()
	if err != nil && strings.Contains(string(out), "reproduces on the real code") {
		return true
	}
	fmt.Printf("note: recorded replay %s of known finding %s no longer fails; treating the failed obligation as a new violation\n", kf.Replay, kf.Obligation)
	return false
}

// knownBounded returns the open known finding recorded for a bounded stand-in.
func (r *Report) knownBounded(name string) *KnownFinding {
	known := loadKnown(filepath.Join(r.verif, "known_findings.json"))
	for i := range known {
		if known[i].Property == r.prop && known[i].Obligation == "bounded:"+name && known[i].Status == "open" {
			return &known[i]
		}
	}
	return nil
}
