package main

import (
	"fmt"
	"go/types"
	"strings"
)

// verifyLemma proves a stand-alone lemma over spec functions.
// Proof script lines (//@ proof ...):
//
//	assert E              -- obligation, then assumed
//	use L(args)           -- check L's requires at args (and decreases if L is this lemma), assume its ensures
//	when C use L(args)    -- the same under condition C
func (e *Engine) verifyLemma(lm *Lemma) []*Oblig {
	name := shortName(lm.Pkg) + ".lemma:" + lm.Name
	fc := &FuncContract{Pkg: lm.Pkg, Name: "lemma:" + lm.Name, Safety: false, Extra: map[string][]string{}}
	e.ctx = e.freshCtx()
	v := &FnV{e: e, c: e.ctx, fc: fc, name: name, boxed: map[types.Object]bool{}, closures: map[string]*closureRec{}, inlining: map[string]bool{}}
	pkg := e.pkgs[lm.Pkg]
	v.frames = []*Frame{{pkg: pkg, name: name}}
	if lm.Axiom {
		e.ctx.trusted["axiom "+name+" (assumed, not proved)"] = true
		return nil
	}
	e.ctx.bv = lm.BV
	defer func() { e.ctx.bv = false }()
	st := &State{c: e.ctx, env: map[types.Object]Value{}, heaps: map[string]string{}, hsort: map[string]string{}}
	st.declare("alloc!0", "Int")
	st.alloc = "alloc!0"
	v.entry = st
	vars := map[string]Value{}
	fail := func(err error, where string) []*Oblig {
		return []*Oblig{{Name: name + "#contract-wellformed", Fn: name, Kind: "contract-wellformed", Quick: "error", Result: "error", Solver: "spec", Output: err.Error(), Pos: where}}
	}
	for i, p := range lm.Params {
		t, err := v.specType(lm.PTypes[i], pkg)
		if err != nil {
			return fail(err, lm.Where)
		}
		val := st.freshVal(p, t)
		if t == nil {
			val.T = nil
		}
		vars[p] = val
		v.params = append(v.params, p+"="+val.S)
	}
	sc := &Scope{v: v, vars: vars, pkg: pkg, callee: true}
	for _, cl := range lm.Requires {
		val, err := v.spec(st, cl.Expr, sc)
		if err != nil {
			return fail(err, cl.Line)
		}
		st.assume(val.S)
	}
	var decr0 string
	if lm.Decr != nil {
		val, err := v.spec(st, lm.Decr.Expr, sc)
		if err != nil {
			return fail(err, lm.Decr.Line)
		}
		decr0 = val.S
	}
	for k, line := range lm.Body {
		cond := ""
		if strings.HasPrefix(line, "when ") {
			idx := strings.Index(line, " use ")
			if idx < 0 {
				return fail(fmt.Errorf("bad proof line %q", line), lm.Where)
			}
			cond = strings.TrimSpace(line[5:idx])
			line = strings.TrimSpace(line[idx+1:])
		}
		guard := "true"
		if cond != "" {
			ce, err := parseSpec(cond)
			if err != nil {
				return fail(err, lm.Where)
			}
			cv, err := v.spec(st, ce, sc)
			if err != nil {
				return fail(err, lm.Where)
			}
			guard = cv.S
		}
		switch {
		case strings.HasPrefix(line, "assert "):
			ex, err := parseSpec(strings.TrimSpace(line[7:]))
			if err != nil {
				return fail(err, lm.Where)
			}
			val, err := v.spec(st, ex, sc)
			if err != nil {
				return fail(err, lm.Where)
			}
			s2 := st.fork()
			v.oblige(s2, fmt.Sprintf("assert@%d", k+1), nil, 0, sImp(guard, val.S), line)
			st.assume(sImp(guard, val.S))
		case strings.HasPrefix(line, "use "):
			call, err := parseSpec(strings.TrimSpace(line[4:]))
			if err != nil || call.Op != "call" || call.Args[0].Op != "ident" {
				return fail(fmt.Errorf("bad use line %q", line), lm.Where)
			}
			target := e.cs.Lemmas[lm.Pkg+"."+call.Args[0].Name]
			if target == nil {
				for _, l := range e.cs.Lemmas {
					if l.Name == call.Args[0].Name {
						target = l
					}
				}
			}
			if target == nil {
				return fail(fmt.Errorf("unknown lemma %s", call.Args[0].Name), lm.Where)
			}
			if len(call.Args)-1 != len(target.Params) {
				return fail(fmt.Errorf("lemma %s: wrong number of arguments", target.Name), lm.Where)
			}
			tv := map[string]Value{}
			tpkg := e.pkgs[target.Pkg]
			for i, p := range target.Params {
				a, err := v.spec(st, call.Args[i+1], sc)
				if err != nil {
					return fail(err, lm.Where)
				}
				pt, _ := v.specType(target.PTypes[i], tpkg)
				a = v.specConv(st, a, pt)
				if pt == nil {
					a.T = nil
				}
				tv[p] = a
			}
			tsc := &Scope{v: v, vars: tv, pkg: tpkg, callee: true}
			var reqs []string
			for _, cl := range target.Requires {
				val, err := v.spec(st, cl.Expr, tsc)
				if err != nil {
					return fail(err, cl.Line)
				}
				reqs = append(reqs, val.S)
			}
			s2 := st.fork()
			v.oblige(s2, fmt.Sprintf("use@%d:requires", k+1), nil, 0, sImp(guard, sAnd(reqs...)), line)
			if target == lm {
				if lm.Decr == nil {
					return fail(fmt.Errorf("recursive use needs a decreases clause"), lm.Where)
				}
				dv, err := v.spec(st, lm.Decr.Expr, tsc)
				if err != nil {
					return fail(err, lm.Where)
				}
				s3 := st.fork()
				v.oblige(s3, fmt.Sprintf("use@%d:decreases", k+1), nil, 0, sImp(guard, sAnd(sLe("0", dv.S), sLt(dv.S, decr0))), "decreases "+lm.Decr.Text)
			}
			for _, cl := range target.Ensures {
				val, err := v.spec(st, cl.Expr, tsc)
				if err != nil {
					return fail(err, cl.Line)
				}
				st.assume(sImp(guard, val.S))
			}
		default:
			return fail(fmt.Errorf("bad proof line %q", line), lm.Where)
		}
	}
	for k, cl := range lm.Ensures {
		s2 := st.fork()
		val, err := v.spec(s2, cl.Expr, sc)
		if err != nil {
			return fail(err, cl.Line)
		}
		lbl := fmt.Sprintf("ensures%d", k+1)
		if cl.Label != "" {
			lbl = cl.Label
		}
		v.oblige(s2, lbl, nil, 0, val.S, "lemma "+lm.Name+" ensures "+cl.Text)
	}
	v.canary(st, nil, 1)
	return v.obligs
}

// lemmaAxiom renders a proved lemma as a quantified assumption for use inside function VCs.
func (v *FnV) lemmaAxiom(st *State, lm *Lemma) (string, error) {
	pkg := v.e.pkgs[lm.Pkg]
	vars := map[string]Value{}
	var binders []string
	var ranges []string
	for i, p := range lm.Params {
		t, err := v.specType(lm.PTypes[i], pkg)
		if err != nil {
			return "", err
		}
		sym := p + "!l"
		vars[p] = Value{T: t, S: sym}
		binders = append(binders, fmt.Sprintf("(%s %s)", sym, v.c.sortOf(t)))
		if r := v.c.rangeOf(t, sym, "alloc!0"); r != "true" && t != nil && isIntType(t) {
			ranges = append(ranges, r)
		}
	}
	q := st.fork()
	q.quiet = true
	sc := &Scope{v: v, vars: vars, pkg: pkg, callee: true}
	var reqs, enss []string
	for _, cl := range lm.Requires {
		val, err := v.spec(q, cl.Expr, sc)
		if err != nil {
			return "", err
		}
		reqs = append(reqs, val.S)
	}
	for _, cl := range lm.Ensures {
		val, err := v.spec(q, cl.Expr, sc)
		if err != nil {
			return "", err
		}
		enss = append(enss, val.S)
	}
	body := sImp(sAnd(append(ranges, reqs...)...), sAnd(enss...))
	if len(binders) == 0 {
		return body, nil
	}
	return fmt.Sprintf("(forall (%s) %s)", strings.Join(binders, " "), body), nil
}
