package main

import (
	"fmt"
	"go/constant"
	"go/token"
	"go/types"
	"math"
	"math/big"
	"strings"
)

var tInt = types.Typ[types.Int]
var tBool = types.Typ[types.Bool]
var tString = types.Typ[types.String]
var tFloat64 = types.Typ[types.Float64]
var tByte = types.Typ[types.Uint8]
var tRune = types.Typ[types.Int32]

func (c *Ctx) ensurePreludeFns() {
	c.glob("tdiv",
		"(define-fun tdiv ((a Int) (b Int)) Int (ite (>= a 0) (ite (> b 0) (div a b) (- (div a (- b)))) (ite (> b 0) (- (div (- a) b)) (div (- a) (- b)))))",
		"(define-fun tmod ((a Int) (b Int)) Int (- a (* b (tdiv a b))))")
}

// wrap reduces a mathematical integer term into the range of type t.
func (c *Ctx) wrap(t types.Type, s string, cheap bool) string {
	bits, signed := intInfo(t)
	if bits == 0 {
		return s
	}
	lo, hi := intBounds(bits, signed)
	p := new(big.Int).Lsh(big.NewInt(1), uint(bits)).String()
	if cheap {
		// s is known to be within one period of the range (sum/difference of in-range values)
		return fmt.Sprintf("(let ((w!s %s)) (ite (> w!s %s) (- w!s %s) (ite (< w!s %s) (+ w!s %s) w!s)))", s, hi, p, lo, p)
	}
	if signed {
		half := new(big.Int).Lsh(big.NewInt(1), uint(bits-1)).String()
		return fmt.Sprintf("(- (mod (+ %s %s) %s) %s)", s, half, p, half)
	}
	return fmt.Sprintf("(mod %s %s)", s, p)
}

func litInt(s string) (*big.Int, bool) {
	s = strings.TrimSpace(s)
	neg := false
	if strings.HasPrefix(s, "(- ") && strings.HasSuffix(s, ")") {
		neg = true
		s = s[3 : len(s)-1]
	}
	if s == "" {
		return nil, false
	}
	for _, r := range s {
		if r < '0' || r > '9' {
			return nil, false
		}
	}
	n, ok := new(big.Int).SetString(s, 10)
	if !ok {
		return nil, false
	}
	if neg {
		n.Neg(n)
	}
	return n, true
}

func pow2Of(n *big.Int) (int, bool) {
	if n.Sign() <= 0 {
		return 0, false
	}
	k := n.BitLen() - 1
	if new(big.Int).Lsh(big.NewInt(1), uint(k)).Cmp(n) == 0 {
		return k, true
	}
	return 0, false
}

// coerceBV converts an untyped spec literal to a bit-vector of the type of other.
func (c *Ctx) coerceBV(v Value, other types.Type) Value {
	if !c.bv || v.T != nil || other == nil || !isIntType(other) {
		return v
	}
	if n, ok := litInt(v.S); ok {
		bits, _ := intInfo(other)
		if bits == 0 {
			bits = 64
		}
		m := new(big.Int).Lsh(big.NewInt(1), uint(bits))
		n = new(big.Int).Mod(n, m)
		return Value{T: other, S: fmt.Sprintf("(_ bv%s %d)", n.String(), bits)}
	}
	return v
}

// arith implements integer binary operators. spec=true means mathematical
// integers (no wrap-around).
func (c *Ctx) arith(op token.Token, a, b Value, rt types.Type, spec bool) (res string, precond string) {
	precond = "true"
	if c.bv && (a.T != nil || b.T != nil) {
		a = c.coerceBV(a, b.T)
		b = c.coerceBV(b, a.T)
		t := a.T
		if t == nil {
			t = b.T
		}
		bits, signed := intInfo(t)
		if bits == 0 {
			bits, signed = 64, true
		}
		zero := bvLit(0, bits)
		switch op {
		case token.ADD:
			return sx("bvadd", a.S, b.S), precond
		case token.SUB:
			return sx("bvsub", a.S, b.S), precond
		case token.MUL:
			return sx("bvmul", a.S, b.S), precond
		case token.QUO:
			if signed {
				return sx("bvsdiv", a.S, b.S), sNot(sEq(b.S, zero))
			}
			return sx("bvudiv", a.S, b.S), sNot(sEq(b.S, zero))
		case token.REM:
			if signed {
				return sx("bvsrem", a.S, b.S), sNot(sEq(b.S, zero))
			}
			return sx("bvurem", a.S, b.S), sNot(sEq(b.S, zero))
		case token.AND:
			return sx("bvand", a.S, b.S), precond
		case token.OR:
			return sx("bvor", a.S, b.S), precond
		case token.XOR:
			return sx("bvxor", a.S, b.S), precond
		case token.AND_NOT:
			return sx("bvand", a.S, sx("bvnot", b.S)), precond
		case token.SHL, token.SHR:
			// shift count may have a different width: resize
			bb, _ := intInfo(b.T)
			if bb == 0 {
				bb = bits
			}
			cnt := b.S
			big := "false" // count >= bits
			if bb > bits {
				big = sx("bvuge", cnt, bvLit(int64(bits), bb))
				cnt = fmt.Sprintf("((_ extract %d 0) %s)", bits-1, cnt)
			} else if bb < bits {
				cnt = fmt.Sprintf("((_ zero_extend %d) %s)", bits-bb, cnt)
			}
			if op == token.SHL {
				return sIte(big, zero, sx("bvshl", a.S, cnt)), precond
			}
			if signed {
				return sIte(big, sIte(sx("bvslt", a.S, zero), sx("bvnot", zero), zero), sx("bvashr", a.S, cnt)), precond
			}
			return sIte(big, zero, sx("bvlshr", a.S, cnt)), precond
		}
		return "", "false"
	}
	wrap := func(s string, cheap bool) string {
		if spec || rt == nil {
			return s
		}
		return c.wrap(rt, s, cheap)
	}
	// + - * on two literals are folded (with exact wrap-around for the result type)
	if x, ok := litInt(a.S); ok {
		if y, ok := litInt(b.S); ok {
			var r *big.Int
			switch op {
			case token.ADD:
				r = new(big.Int).Add(x, y)
			case token.SUB:
				r = new(big.Int).Sub(x, y)
			case token.MUL:
				r = new(big.Int).Mul(x, y)
			}
			if r != nil {
				if !spec && rt != nil {
					if bits, signed := intInfo(rt); bits > 0 {
						m := new(big.Int).Lsh(big.NewInt(1), uint(bits))
						r.Mod(r, m)
						if signed && r.Cmp(new(big.Int).Rsh(m, 1)) >= 0 {
							r.Sub(r, m)
						}
					}
				}
				return sBig(r), precond
			}
		}
	}
	// bit operations on two non-negative literals are folded
	if x, ok := litInt(a.S); ok && x.Sign() >= 0 {
		if y, ok := litInt(b.S); ok && y.Sign() >= 0 {
			switch op {
			case token.AND:
				return sBig(new(big.Int).And(x, y)), precond
			case token.OR:
				return sBig(new(big.Int).Or(x, y)), precond
			case token.XOR:
				return sBig(new(big.Int).Xor(x, y)), precond
			case token.AND_NOT:
				return sBig(new(big.Int).AndNot(x, y)), precond
			}
		}
	}
	switch op {
	case token.ADD:
		return wrap(sx("+", a.S, b.S), true), precond
	case token.SUB:
		return wrap(sx("-", a.S, b.S), true), precond
	case token.MUL:
		return wrap(sx("*", a.S, b.S), false), precond
	case token.QUO:
		c.ensurePreludeFns()
		if spec {
			return sx("tdiv", a.S, b.S), sNot(sEq(b.S, "0"))
		}
		return wrap(sx("tdiv", a.S, b.S), true), sNot(sEq(b.S, "0"))
	case token.REM:
		c.ensurePreludeFns()
		return sx("tmod", a.S, b.S), sNot(sEq(b.S, "0"))
	case token.AND:
		if n, ok := litInt(b.S); ok {
			if k, ok := pow2Of(new(big.Int).Add(n, big.NewInt(1))); ok {
				return sx("mod", a.S, new(big.Int).Lsh(big.NewInt(1), uint(k)).String()), precond
			}
			if n.Sign() == 0 {
				return "0", precond
			}
		}
		if n, ok := litInt(a.S); ok {
			if k, ok := pow2Of(new(big.Int).Add(n, big.NewInt(1))); ok {
				return sx("mod", b.S, new(big.Int).Lsh(big.NewInt(1), uint(k)).String()), precond
			}
		}
		c.bitFns()
		return sx("bitand", a.S, b.S), precond
	case token.OR:
		c.bitFns()
		return sx("bitor", a.S, b.S), precond
	case token.XOR:
		// x ^ 2^k flips bit k
		flip := func(x string, n *big.Int) (string, bool) {
			k, ok := pow2Of(n)
			if !ok {
				return "", false
			}
			p := new(big.Int).Lsh(big.NewInt(1), uint(k)).String()
			return fmt.Sprintf("(ite (= (mod (div %s %s) 2) 1) (- %s %s) (+ %s %s))", x, p, x, p, x, p), true
		}
		if n, ok := litInt(b.S); ok {
			if r, ok := flip(a.S, n); ok {
				return wrap(r, true), precond
			}
		}
		if n, ok := litInt(a.S); ok {
			if r, ok := flip(b.S, n); ok {
				return wrap(r, true), precond
			}
		}
		c.bitFns()
		return sx("bitxor", a.S, b.S), precond
	case token.AND_NOT:
		c.bitFns()
		return sx("bitandnot", a.S, b.S), precond
	case token.SHL:
		if n, ok := litInt(b.S); ok && n.IsInt64() && n.Int64() >= 0 && n.Int64() < 128 {
			return wrap(sx("*", a.S, new(big.Int).Lsh(big.NewInt(1), uint(n.Int64())).String()), false), precond
		}
		c.bitFns()
		return wrap(sx("*", a.S, sx("pow2", b.S)), false), sGe(b.S, "0")
	case token.SHR:
		if n, ok := litInt(b.S); ok && n.IsInt64() && n.Int64() >= 0 && n.Int64() < 128 {
			return sx("div", a.S, new(big.Int).Lsh(big.NewInt(1), uint(n.Int64())).String()), precond
		}
		c.bitFns()
		return sx("div", a.S, sx("pow2", b.S)), sGe(b.S, "0")
	}
	return "", "false"
}

func (c *Ctx) bitFns() {
	c.glob("bitfns",
		"(declare-fun bitand (Int Int) Int)",
		"(declare-fun bitor (Int Int) Int)",
		"(declare-fun bitxor (Int Int) Int)",
		"(declare-fun bitandnot (Int Int) Int)",
		"(declare-fun pow2 (Int) Int)",
		"(assert (forall ((a Int) (b Int)) (! (=> (and (>= a 0) (>= b 0)) (and (<= 0 (bitand a b)) (<= (bitand a b) a) (<= (bitand a b) b))) :pattern ((bitand a b)))))",
		"(assert (forall ((a Int) (b Int)) (! (=> (and (>= a 0) (>= b 0)) (and (<= a (bitor a b)) (<= b (bitor a b)) (<= (bitor a b) (+ a b)))) :pattern ((bitor a b)))))",
		"(assert (forall ((a Int) (b Int)) (! (=> (and (>= a 0) (>= b 0)) (and (<= 0 (bitxor a b)) (<= (bitxor a b) (+ a b)))) :pattern ((bitxor a b)))))",
		"(assert (forall ((k Int)) (! (=> (>= k 0) (>= (pow2 k) 1)) :pattern ((pow2 k)))))",
		"(assert (= (pow2 0) 1))",
		"(assert (forall ((k Int)) (! (=> (> k 0) (= (pow2 k) (* 2 (pow2 (- k 1))))) :pattern ((pow2 k)))))")
}

func (c *Ctx) cmp(op token.Token, a, b Value) string {
	ta := a.T
	if ta == nil {
		ta = b.T
	}
	if isFloatType(ta) {
		switch op {
		case token.LSS:
			return sx("fp.lt", a.S, b.S)
		case token.LEQ:
			return sx("fp.leq", a.S, b.S)
		case token.GTR:
			return sx("fp.gt", a.S, b.S)
		case token.GEQ:
			return sx("fp.geq", a.S, b.S)
		}
	}
	if c.bv && ta != nil && isIntType(ta) {
		a = c.coerceBV(a, b.T)
		b = c.coerceBV(b, a.T)
		_, signed := intInfo(ta)
		var f string
		switch op {
		case token.LSS:
			f = "bvult"
			if signed {
				f = "bvslt"
			}
		case token.LEQ:
			f = "bvule"
			if signed {
				f = "bvsle"
			}
		case token.GTR:
			f = "bvugt"
			if signed {
				f = "bvsgt"
			}
		case token.GEQ:
			f = "bvuge"
			if signed {
				f = "bvsge"
			}
		}
		return sx(f, a.S, b.S)
	}
	switch op {
	case token.LSS:
		return sLt(a.S, b.S)
	case token.LEQ:
		return sLe(a.S, b.S)
	case token.GTR:
		return sGt(a.S, b.S)
	case token.GEQ:
		return sGe(a.S, b.S)
	}
	return "false"
}

// strLit builds a string value from Go bytes. Literals are constant arrays
// defined once per distinct content.
func (c *Ctx) strLit(s string) string {
	if s == "" {
		return "emptystr"
	}
	name := "lit!" + mangle(s)
	if len(name) > 60 {
		name = fmt.Sprintf("lit!%x", []byte(s))
		if len(name) > 80 {
			name = fmt.Sprintf("lit!h%d_%d", len(s), hashStr(s))
		}
	}
	c.litByName[name] = s
	if !c.globSeen["lit:"+s] {
		arr := "emptybase"
		for i := 0; i < len(s); i++ {
			arr = sStore(arr, fmt.Sprint(i), fmt.Sprint(int(s[i])))
		}
		c.glob("lit:"+s,
			fmt.Sprintf("(define-fun %s!b () (Array Int Int) %s)", name, arr),
			fmt.Sprintf("(define-fun %s () Str (mkstr %s!b 0 %d))", name, name, len(s)))
	}
	return name
}

func hashStr(s string) uint32 {
	var h uint32 = 2166136261
	for i := 0; i < len(s); i++ {
		h = (h ^ uint32(s[i])) * 16777619
	}
	return h
}

// strEq: Go string equality. known is the literal content when one side is a literal.
func (c *Ctx) strEq(a, b string, lit *string) string {
	if lit != nil {
		parts := []string{sEq(sx("slen", a), fmt.Sprint(len(*lit)))}
		if len(*lit) <= 16 {
			for i := 0; i < len(*lit); i++ {
				parts = append(parts, sEq(sx("sat", a, fmt.Sprint(i)), fmt.Sprint(int((*lit)[i]))))
			}
			return sAnd(parts...)
		}
	}
	return sx("str_eq", a, b)
}

// constVal converts a go/constant value to a symbolic value of type t.
func (c *Ctx) constVal(cv constant.Value, t types.Type) (Value, bool) {
	switch cv.Kind() {
	case constant.Bool:
		return Value{T: t, S: sBool(constant.BoolVal(cv))}, true
	case constant.String:
		return Value{T: t, S: c.strLit(constant.StringVal(cv))}, true
	case constant.Int:
		if isFloatType(t) {
			f, _ := constant.Float64Val(cv)
			return Value{T: t, S: c.fpLit(f, t)}, true
		}
		n, ok := new(big.Int).SetString(cv.ExactString(), 10)
		if !ok {
			return Value{}, false
		}
		if c.bv && isIntType(t) {
			bits, _ := intInfo(t)
			if bits == 0 {
				// an untyped constant (e.g. a constant shift count) adapts to the other operand
				return Value{T: nil, S: sBig(n)}, true
			}
			m := new(big.Int).Lsh(big.NewInt(1), uint(bits))
			n = new(big.Int).Mod(n, m)
			return Value{T: t, S: fmt.Sprintf("(_ bv%s %d)", n.String(), bits)}, true
		}
		return Value{T: t, S: sBig(n)}, true
	case constant.Float:
		if isFloatType(t) || t == nil {
			f, _ := constant.Float64Val(cv)
			return Value{T: t, S: c.fpLit(f, t)}, true
		}
		if isIntType(t) {
			if iv := constant.ToInt(cv); iv.Kind() == constant.Int {
				return c.constVal(iv, t)
			}
		}
	}
	return Value{}, false
}

func (c *Ctx) fpLit(f float64, t types.Type) string {
	if t != nil {
		if b, ok := t.Underlying().(*types.Basic); ok && b.Kind() == types.Float32 {
			bits := math.Float32bits(float32(f))
			return fmt.Sprintf("((_ to_fp 8 24) (_ bv%d 32))", bits)
		}
	}
	bits := math.Float64bits(f)
	return fmt.Sprintf("((_ to_fp 11 53) (_ bv%d 64))", bits)
}

// boxing of structs (and other non-scalar values) into Val
func (c *Ctx) boxFns(t types.Type) (box, unbox string) {
	sort := c.sortOf(t)
	key := mangle(typeKey(t))
	box, unbox = "box!"+key, "unbox!"+key
	c.glob("box:"+key,
		fmt.Sprintf("(declare-fun %s (%s) Int)", box, sort),
		fmt.Sprintf("(declare-fun %s (Int) %s)", unbox, sort),
		fmt.Sprintf("(assert (forall ((x!b %s)) (! (= (%s (%s x!b)) x!b) :pattern ((%s x!b)))))", sort, unbox, box, box))
	return
}

// toIface boxes a concrete value into an interface value.
func (c *Ctx) toIface(v Value) string {
	if v.T == nil {
		return fmt.Sprintf("(mkval %d %s fpzero emptystr false)", c.tagOf(tInt), v.S)
	}
	if isInterface(v.T) {
		return v.S
	}
	if b, ok := v.T.Underlying().(*types.Basic); ok && b.Kind() == types.UntypedNil {
		return "nilval"
	}
	tag := c.tagOf(v.T)
	switch tag % 8 {
	case clsFloat:
		if c.sortOf(v.T) == sortF32 {
			return fmt.Sprintf("(mkval %d 0 ((_ to_fp 11 53) RNE %s) emptystr false)", tag, v.S)
		}
		return fmt.Sprintf("(mkval %d 0 %s emptystr false)", tag, v.S)
	case clsStr:
		return fmt.Sprintf("(mkval %d 0 fpzero %s false)", tag, v.S)
	case clsBool:
		return fmt.Sprintf("(mkval %d 0 fpzero emptystr %s)", tag, v.S)
	}
	srt := c.sortOf(v.T)
	if srt == "Int" {
		// pointer-like: a nil pointer in an interface is still a non-nil interface
		return fmt.Sprintf("(mkval %d %s fpzero emptystr false)", tag, v.S)
	}
	if strings.HasPrefix(srt, "(_ BitVec") {
		// bv mode: the payload of an interface value stays a mathematical integer
		bits, signed := intInfo(v.T)
		if bits == 0 {
			bits, signed = 64, true
		}
		n := sx("bv2nat", v.S)
		if signed {
			p := new(big.Int).Lsh(big.NewInt(1), uint(bits)).String()
			n = sIte(sx("bvslt", v.S, bvLit(0, bits)), sx("-", n, p), n)
		}
		return fmt.Sprintf("(mkval %d %s fpzero emptystr false)", tag, n)
	}
	box, _ := c.boxFns(v.T)
	return fmt.Sprintf("(mkval %d (%s %s) fpzero emptystr false)", tag, box, v.S)
}

// fromIface extracts the payload of an interface value as concrete type t.
func (c *Ctx) fromIface(s string, t types.Type) string {
	if isInterface(t) {
		return s
	}
	tag := c.tagOf(t)
	switch tag % 8 {
	case clsFloat:
		if c.sortOf(t) == sortF32 {
			return fmt.Sprintf("((_ to_fp 8 24) RNE (vfp %s))", s)
		}
		return sx("vfp", s)
	case clsStr:
		return sx("vstr", s)
	case clsBool:
		return sx("vbool", s)
	}
	srt := c.sortOf(t)
	if srt == "Int" {
		return sx("vint", s)
	}
	if strings.HasPrefix(srt, "(_ BitVec") {
		bits, _ := intInfo(t)
		if bits == 0 {
			bits = 64
		}
		return fmt.Sprintf("((_ int2bv %d) (vint %s))", bits, s)
	}
	_, unbox := c.boxFns(t)
	return sx(unbox, sx("vint", s))
}

// hasType: dynamic type test of an interface value against t.
func (c *Ctx) hasType(s string, t types.Type) string {
	if isInterface(t) {
		it := t.Underlying().(*types.Interface)
		if it.NumMethods() == 0 && it.IsMethodSet() {
			return sNot(sEq(sx("vtag", s), "0"))
		}
		return sAnd(sNot(sEq(sx("vtag", s), "0")), sx(c.implPred(t), sx("vtag", s)))
	}
	return sEq(sx("vtag", s), fmt.Sprint(c.tagOf(t)))
}

func (c *Ctx) implPred(t types.Type) string {
	name := "impl!" + mangle(typeKey(t))
	c.glob("impl:"+name, fmt.Sprintf("(declare-fun %s (Int) Bool)", name))
	c.ifaces[name] = t
	return name
}

// implFacts returns assertions relating every known tag to every used interface predicate.
func (c *Ctx) implFacts(ifaces map[string]types.Type) []string {
	var out []string
	for name, it := range ifaces {
		iface, ok := it.Underlying().(*types.Interface)
		if !ok {
			continue
		}
		for _, tt := range c.tagTypes {
			if tt == sentinelType {
				// constant package-level values of interface type (sentinel errors such as
				// ErrEndOfHistory): their dynamic type is not tracked, so nothing is said about
				// which interfaces it implements (it certainly implements the one it is declared with)
				continue
			}
			impl := types.Implements(tt, iface)
			out = append(out, fmt.Sprintf("(assert (= (%s %d) %s))", name, c.tagOf(tt), sBool(impl)))
		}
	}
	return out
}
