package main

import (
	"bytes"
	"context"
	"fmt"
	"os"
	"os/exec"
	"path/filepath"
	"strings"
	"sync"
	"time"
)

type solverSpec struct {
	name string
	args func(file string, sec int) []string
}

var solvers = []solverSpec{
	{"z3-new", func(f string, sec int) []string { return []string{"z3-new", fmt.Sprintf("-T:%d", sec), f} }},
	{"z3", func(f string, sec int) []string { return []string{"z3", fmt.Sprintf("-T:%d", sec), f} }},
	{"cvc5", func(f string, sec int) []string {
		return []string{"cvc5", fmt.Sprintf("--tlimit=%d", sec*1000), "--produce-models", f}
	}},
}

type solveRes struct {
	solver string
	result string
	out    string
	ms     int64
}

func runSolver(ctx context.Context, sp solverSpec, file string, sec int) solveRes {
	args := sp.args(file, sec)
	t0 := time.Now()
	cctx, cancel := context.WithTimeout(ctx, time.Duration(sec+5)*time.Second)
	defer cancel()
	cmd := exec.CommandContext(cctx, args[0], args[1:]...)
	var buf bytes.Buffer
	cmd.Stdout = &buf
	cmd.Stderr = &buf
	cmd.Run()
	out := buf.String()
	first := strings.TrimSpace(out)
	if k := strings.IndexByte(first, '\n'); k >= 0 {
		first = strings.TrimSpace(first[:k])
	}
	res := "unknown"
	switch {
	case first == "unsat":
		res = "unsat"
	case first == "sat":
		res = "sat"
	case first == "timeout" || strings.Contains(first, "timeout") || strings.Contains(first, "interrupted"):
		res = "timeout"
	case strings.HasPrefix(first, "(error") || strings.Contains(first, "rror"):
		res = "error"
	}
	if cctx.Err() != nil && res == "unknown" {
		res = "timeout"
	}
	return solveRes{sp.name, res, out, time.Since(t0).Milliseconds()}
}

// solveOne races the solvers on one obligation.
func solveOne(ob *Oblig, file string, sec int, agree bool) {
	ctx, cancel := context.WithCancel(context.Background())
	defer cancel()
	ch := make(chan solveRes, len(solvers))
	for _, sp := range solvers {
		sp := sp
		go func() { ch <- runSolver(ctx, sp, file, sec) }()
	}
	var all []solveRes
	var best *solveRes
	for range solvers {
		r := <-ch
		all = append(all, r)
		if r.result == "unsat" || r.result == "sat" {
			if best == nil {
				rr := r
				best = &rr
				if !agree {
					cancel()
					break
				}
			} else if agree && best.result != r.result {
				ob.Result = "error"
				ob.Solver = best.solver + "/" + r.solver
				ob.Output = "solver disagreement: " + best.solver + "=" + best.result + " " + r.solver + "=" + r.result
				return
			}
		}
	}
	if best != nil {
		ob.Result, ob.Solver, ob.TimeMs, ob.Output = best.result, best.solver, best.ms, best.out
		if best.result == "sat" {
			if k := strings.IndexByte(best.out, '\n'); k >= 0 {
				ob.Model = best.out[k+1:]
			}
		}
		return
	}
	// nothing definitive
	ob.Result = "unknown"
	var parts []string
	var ms int64
	for _, r := range all {
		if r.result == "error" {
			ob.Result = "error"
		}
		o := r.out
		if len(o) > 400 {
			o = o[:400]
		}
		parts = append(parts, r.solver+": "+r.result+" "+strings.TrimSpace(o))
		if r.ms > ms {
			ms = r.ms
		}
		if r.result == "timeout" && ob.Result == "unknown" {
			ob.Result = "timeout"
		}
	}
	ob.Solver = "all"
	ob.TimeMs = ms
	ob.Output = strings.Join(parts, "\n")
}

func solveAll(obligs []*Oblig, outDir string, sec int, agree bool, expectedFail map[string]bool) {
	sem := make(chan struct{}, 6)
	var wg sync.WaitGroup
	cache := map[string]*Oblig{}
	var mu sync.Mutex
	for i, ob := range obligs {
		if ob.Quick != "" || ob.SMT == "" {
			continue
		}
		mu.Lock()
		if prev, ok := cache[ob.SMT]; ok {
			mu.Unlock()
			wg.Add(1)
			go func(ob, prev *Oblig) {
				defer wg.Done()
				// wait until prev finished (poll result)
				for {
					mu.Lock()
					done := prev.Result != ""
					mu.Unlock()
					if done {
						break
					}
					time.Sleep(20 * time.Millisecond)
				}
				mu.Lock()
				ob.Result, ob.Solver, ob.TimeMs, ob.Model, ob.Output = prev.Result, prev.Solver+"(cached)", 0, prev.Model, prev.Output
				mu.Unlock()
			}(ob, prev)
			continue
		}
		cache[ob.SMT] = ob
		mu.Unlock()
		wg.Add(1)
		sem <- struct{}{}
		go func(i int, ob *Oblig) {
			defer wg.Done()
			defer func() { <-sem }()
			file := filepath.Join(outDir, fmt.Sprintf("o%04d.smt2", i))
			os.WriteFile(file, []byte(ob.SMT+"(get-model)\n"), 0o644)
			tmp := &Oblig{}
			osec, oagree := sec, agree
			if ob.Canary {
				// a contradiction shows up as a fast unsat; anything else means "reachable"
				osec, oagree = 3, false
			}
			solveOne(tmp, file, osec, oagree)
			mu.Lock()
			ob.Solver, ob.TimeMs, ob.Model, ob.Output = tmp.Solver, tmp.TimeMs, tmp.Model, tmp.Output
			ob.Result = tmp.Result
			mu.Unlock()
			if tmp.Result == "unsat" {
				os.Remove(file)
			}
		}(i, ob)
	}
	wg.Wait()
	// Second chance for timeouts: a goal that ran out of time while up to 18
	// solver processes shared the machine is tried again alone, with three times
	// the budget, before it is reported. (A timeout is never a refutation; this
	// only keeps machine load from turning into an alarm.)
	retried, nretry := false, 0
	for i, ob := range obligs {
		if ob.Canary || ob.Result != "timeout" || cache[ob.SMT] != ob {
			continue
		}
		if expectedFail[ob.Name] {
			// the obligation of an open known finding: it is expected not to be
			// discharged (the recorded replay is re-run instead), so no second chance
			continue
		}
		if nretry++; nretry > 3 {
			break
		}
		file := filepath.Join(outDir, fmt.Sprintf("o%04d.smt2", i))
		tmp := &Oblig{}
		solveOne(tmp, file, 3*sec, agree)
		if tmp.Result != "timeout" {
			ob.Solver, ob.TimeMs, ob.Model, ob.Output, ob.Result = tmp.Solver+"(retry)", tmp.TimeMs, tmp.Model, tmp.Output, tmp.Result
			retried = true
			if tmp.Result == "unsat" {
				os.Remove(file)
			}
		}
	}
	if retried {
		for _, ob := range obligs {
			if prev := cache[ob.SMT]; prev != nil && prev != ob && strings.HasSuffix(ob.Solver, "(cached)") {
				ob.Result, ob.Solver, ob.Model, ob.Output = prev.Result, prev.Solver+"(cached)", prev.Model, prev.Output
			}
		}
	}
}
