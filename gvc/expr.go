package main

import (
	"fmt"
	"go/ast"
	"go/token"
	"go/types"
)

func (v *FnV) havoc(st *State, hint string, t types.Type) Value {
	if t == nil {
		t = tInt
	}
	if tup, ok := t.(*types.Tuple); ok {
		if tup.Len() == 0 {
			return Value{T: tInt, S: "0"}
		}
		t = tup.At(0).Type()
	}
	return st.freshVal(hint, t)
}

func (v *FnV) convertIdx(st *State, i Value) string {
	// indices are used as mathematical integers
	if v.c.bv && i.T != nil {
		return i.S
	}
	return i.S
}

func (v *FnV) expr(st *State, e ast.Expr) Value {
	if st.dead {
		return Value{T: v.typeOf(e), S: v.c.zeroOf(v.typeOf(e))}
	}
	info := v.info()
	if tv, ok := info.Types[e]; ok && tv.Value != nil {
		t := v.substT(tv.Type)
		if val, ok := v.c.constVal(tv.Value, t); ok {
			return val
		}
	}
	switch x := e.(type) {
	case *ast.ParenExpr:
		return v.expr(st, x.X)
	case *ast.Ident:
		if x.Name == "nil" {
			if _, isNil := info.Uses[x].(*types.Nil); isNil {
				return Value{T: types.Typ[types.UntypedNil], S: "0"}
			}
		}
		obj := info.Uses[x]
		if obj == nil {
			obj = info.Defs[x]
		}
		switch o := obj.(type) {
		case *types.Var:
			val := v.getVar(st, o)
			val.T = v.substT(val.T)
			return val
		case *types.Func:
			return v.funcValue(st, o)
		case *types.Nil:
			return Value{T: types.Typ[types.UntypedNil], S: "0"}
		}
		return v.havoc(st, x.Name, v.typeOf(e))
	case *ast.BasicLit:
		return v.havoc(st, "lit", v.typeOf(e))
	case *ast.FuncLit:
		v.nclos++
		id := fmt.Sprint(900000000 + v.nclos)
		v.closures[id] = &closureRec{lit: x, frame: v.fr()}
		return Value{T: v.typeOf(e), S: id}
	case *ast.CompositeLit:
		return v.compositeLit(st, x, v.typeOf(e))
	case *ast.SelectorExpr:
		return v.selector(st, x)
	case *ast.IndexExpr:
		return v.index(st, x)
	case *ast.IndexListExpr:
		return v.havoc(st, "inst", v.typeOf(e))
	case *ast.SliceExpr:
		return v.sliceExpr(st, x)
	case *ast.StarExpr:
		p := v.expr(st, x.X)
		t := v.typeOf(e)
		v.nilCheck(st, x, p)
		return Value{T: t, S: v.load(st, t, p.S)}
	case *ast.UnaryExpr:
		return v.unary(st, x)
	case *ast.BinaryExpr:
		return v.binary(st, x)
	case *ast.CallExpr:
		vals := v.call(st, x)
		if len(vals) == 0 {
			return Value{T: tInt, S: "0"}
		}
		return vals[0]
	case *ast.TypeAssertExpr:
		iv := v.expr(st, x.X)
		t := v.typeOf(x.Type)
		v.safety(st, "type-assert", x, v.c.hasType(iv.S, t), fmt.Sprintf("type assertion to %s cannot fail", types.TypeString(t, nil)))
		pv := v.c.fromIface(iv.S, t)
		// a value taken out of an interface satisfies its type invariant (pointers refer to allocated objects, ...)
		st.assume(v.c.rangeOf(t, pv, st.alloc))
		return Value{T: t, S: pv}
	case *ast.KeyValueExpr:
		return v.expr(st, x.Value)
	}
	v.abstract(e, fmt.Sprintf("unsupported expression %T", e))
	return v.havoc(st, "expr", v.typeOf(e))
}

func (v *FnV) funcValue(st *State, fn *types.Func) Value {
	name := "fn!" + mangle(funcFullName(fn))
	v.c.glob("fnval:"+name, fmt.Sprintf("(declare-const %s Int)", name), fmt.Sprintf("(assert (< 0 %s))", name))
	return Value{T: fn.Type(), S: name}
}

func (v *FnV) selector(st *State, x *ast.SelectorExpr) Value {
	info := v.info()
	sel, ok := info.Selections[x]
	if !ok {
		// qualified identifier
		switch o := info.Uses[x.Sel].(type) {
		case *types.Var:
			return v.global(st, o)
		case *types.Func:
			return v.funcValue(st, o)
		}
		return v.havoc(st, x.Sel.Name, v.typeOf(x))
	}
	switch sel.Kind() {
	case types.FieldVal:
		base := v.expr(st, x.X)
		return v.fieldPath(st, x, base, sel.Index())
	case types.MethodVal, types.MethodExpr:
		v.expr(st, x.X)
		v.abstract(x, "method value")
		return v.havoc(st, "methval", v.typeOf(x))
	}
	return v.havoc(st, "sel", v.typeOf(x))
}

// fieldPath follows a (possibly embedded) field path with implicit dereferences.
func (v *FnV) fieldPath(st *State, n ast.Node, base Value, path []int) Value {
	cur := base
	for _, i := range path {
		t := cur.T
		if pt, ok := t.Underlying().(*types.Pointer); ok {
			v.nilCheck(st, n, cur)
			cur = Value{T: v.substT(pt.Elem()), S: v.load(st, v.substT(pt.Elem()), cur.S)}
			t = cur.T
		}
		stt := structType(t)
		if stt == nil {
			return v.havoc(st, "field", tInt)
		}
		ft := v.substT(stt.Field(i).Type())
		cur = Value{T: ft, S: v.c.fieldGet(t, cur.S, i)}
	}
	return cur
}

func (v *FnV) index(st *State, x *ast.IndexExpr) Value {
	info := v.info()
	if tv, ok := info.Types[x.X]; ok && tv.IsType() {
		return v.havoc(st, "inst", v.typeOf(x))
	}
	if id := identOf(x.X); id != nil {
		if _, ok := info.Instances[id]; ok {
			// generic function instantiation used as a value
			return v.expr(st, x.X)
		}
	}
	xt := v.typeOf(x.X)
	base := v.expr(st, x.X)
	rt := v.typeOf(x)
	switch u := xt.Underlying().(type) {
	case *types.Basic:
		if isString(xt) {
			idx := v.convertIdx(st, v.expr(st, x.Index))
			v.safety(st, "index", x, sAnd(sLe("0", idx), sLt(idx, sx("slen", base.S))), "string index in range")
			b := sx("sat", base.S, idx)
			st.assume(sAnd(sLe("0", b), sLe(b, "255")))
			return Value{T: rt, S: b}
		}
	case *types.Slice:
		idx := v.convertIdx(st, v.expr(st, x.Index))
		v.safety(st, "index", x, sAnd(sLe("0", idx), sLt(idx, sx("sllen", base.S))), "slice index in range")
		return Value{T: rt, S: v.sliceLoad(st, v.substT(u.Elem()), base.S, idx)}
	case *types.Array:
		idx := v.convertIdx(st, v.expr(st, x.Index))
		v.safety(st, "index", x, sAnd(sLe("0", idx), sLt(idx, fmt.Sprint(u.Len()))), "array index in range")
		val := sSelect(base.S, idx)
		st.assume(v.c.rangeOf(rt, val, st.alloc))
		return Value{T: rt, S: val}
	case *types.Pointer:
		if at, ok := u.Elem().Underlying().(*types.Array); ok {
			idx := v.convertIdx(st, v.expr(st, x.Index))
			v.safety(st, "index", x, sAnd(sLe("0", idx), sLt(idx, fmt.Sprint(at.Len()))), "array index in range")
			arr := v.load(st, u.Elem(), base.S)
			val := sSelect(arr, idx)
			st.assume(v.c.rangeOf(rt, val, st.alloc))
			return Value{T: rt, S: val}
		}
	case *types.Map:
		k := v.convert(st, v.expr(st, x.Index), u.Key())
		val, _ := v.mapLookup(st, u, base, k)
		return val
	}
	v.abstract(x, "unsupported index expression")
	return v.havoc(st, "idx", rt)
}

func (v *FnV) sliceExpr(st *State, x *ast.SliceExpr) Value {
	xt := v.typeOf(x.X)
	base := v.expr(st, x.X)
	rt := v.typeOf(x)
	var lo, hi, mx *Value
	ev := func(e ast.Expr) *Value {
		if e == nil {
			return nil
		}
		val := v.expr(st, e)
		return &val
	}
	lo, hi, mx = ev(x.Low), ev(x.High), ev(x.Max)
	los := "0"
	if lo != nil {
		los = lo.S
	}
	if isString(xt) {
		n := sx("slen", base.S)
		his := n
		if hi != nil {
			his = hi.S
		}
		v.safety(st, "slice", x, sAnd(sLe("0", los), sLe(los, his), sLe(his, n)), "string slice bounds in range")
		return Value{T: rt, S: fmt.Sprintf("(mkstr (sbase %s) %s %s)", base.S, sAdd(sx("soff", base.S), los), sSub(his, los))}
	}
	switch u := xt.Underlying().(type) {
	case *types.Slice:
		c := sx("slcap", base.S)
		his := sx("sllen", base.S)
		if hi != nil {
			his = hi.S
		}
		mxs := c
		if mx != nil {
			mxs = mx.S
		}
		v.safety(st, "slice", x, sAnd(sLe("0", los), sLe(los, his), sLe(his, mxs), sLe(mxs, c)), "slice bounds in range")
		return Value{T: rt, S: fmt.Sprintf("(mkslice (sref %s) %s %s %s)", base.S, sAdd(sx("sloff", base.S), los), sSub(his, los), sSub(mxs, los))}
	case *types.Array:
		// a boxed local array: its cell is the backing store
		if id, ok := unparen(x.X).(*ast.Ident); ok {
			if obj := v.info().Uses[id]; obj != nil && v.boxed[obj] {
				if cell, ok := st.env[obj]; ok {
					return v.sliceOfArrayCell(st, x, rt, cell.S, u.Len(), los, hi, mx)
				}
			}
		}
		v.abstract(x, "slicing an array value")
	case *types.Pointer:
		if at, ok := u.Elem().Underlying().(*types.Array); ok {
			v.nilCheck(st, x, base)
			return v.sliceOfArrayCell(st, x, rt, base.S, at.Len(), los, hi, mx)
		}
		v.abstract(x, "slicing through array pointer")
	}
	return v.havoc(st, "slice", rt)
}

// sliceOfArrayCell: a[lo:hi:max] for an array stored at cell ref (length n).
func (v *FnV) sliceOfArrayCell(st *State, x *ast.SliceExpr, rt types.Type, ref string, n int64, los string, hi, mx *Value) Value {
	ns := fmt.Sprint(n)
	his, mxs := ns, ns
	if hi != nil {
		his = hi.S
	}
	if mx != nil {
		mxs = mx.S
	}
	v.safety(st, "slice", x, sAnd(sLe("0", los), sLe(los, his), sLe(his, mxs), sLe(mxs, ns)), "array slice bounds in range")
	return Value{T: rt, S: fmt.Sprintf("(mkslice %s %s %s %s)", ref, los, sSub(his, los), sSub(mxs, los))}
}

func (v *FnV) unary(st *State, x *ast.UnaryExpr) Value {
	t := v.typeOf(x)
	switch x.Op {
	case token.AND:
		inner := unparen(x.X)
		if cl, ok := inner.(*ast.CompositeLit); ok {
			et := v.typeOf(cl)
			val := v.compositeLit(st, cl, et)
			ref := v.alloc(st, "lit")
			v.store(st, et, ref, val.S)
			return Value{T: t, S: ref}
		}
		if id, ok := inner.(*ast.Ident); ok {
			obj := v.info().Uses[id]
			if obj != nil && v.boxed[obj] {
				if _, ok := st.env[obj]; !ok {
					v.getVar(st, obj)
				}
				return Value{T: t, S: st.env[obj].S}
			}
		}
		if se, ok := inner.(*ast.SelectorExpr); ok {
			// &x.f as a call argument: copy-in / copy-out through a temporary
			// cell (precise when the callee does not retain the pointer; the
			// copy-out happens when the enclosing call returns).
			if sel := v.info().Selections[se]; sel != nil && sel.Kind() == types.FieldVal && v.callDepth > 0 {
				cur := v.expr(st, se)
				ref := v.alloc(st, "iptr")
				v.store(st, cur.T, ref, cur.S)
				v.wb = append(v.wb, wbEntry{ref: ref, lhs: se, t: cur.T, depth: v.callDepth})
				v.abstract(x, "interior pointer &x.f passed to a call by copy-in/copy-out (callee assumed not to retain it)")
				return Value{T: t, S: ref}
			}
			// otherwise unsupported precisely (interior pointer); havoc a non-nil pointer
			v.expr(st, se.X)
		}
		if ie, ok := inner.(*ast.IndexExpr); ok {
			v.expr(st, ie)
		}
		v.abstract(x, "interior pointer (&x.f / &a[i])")
		p := v.havoc(st, "addr", t)
		st.assume(sNot(sEq(p.S, "0")))
		return p
	case token.NOT:
		return Value{T: t, S: sNot(v.expr(st, x.X).S)}
	case token.SUB:
		a := v.expr(st, x.X)
		if isFloatType(a.T) {
			return Value{T: t, S: sx("fp.neg", a.S)}
		}
		if v.c.bv {
			return Value{T: t, S: sx("bvneg", a.S)}
		}
		return Value{T: t, S: v.c.wrap(t, sx("-", a.S), true)}
	case token.ADD:
		return v.expr(st, x.X)
	case token.XOR:
		a := v.expr(st, x.X)
		if v.c.bv {
			return Value{T: t, S: sx("bvnot", a.S)}
		}
		_, signed := intInfo(t)
		if signed {
			return Value{T: t, S: sx("-", sx("-", a.S), "1")}
		}
		_, hi := intBounds(func() int { b, _ := intInfo(t); return b }(), false)
		return Value{T: t, S: sx("-", hi, a.S)}
	case token.ARROW:
		v.expr(st, x.X)
		v.abstract(x, "channel receive")
		v.yield(st)
		return v.havoc(st, "recv", t)
	}
	v.abstract(x, "unsupported unary operator")
	return v.havoc(st, "un", t)
}

// guarded evaluates f in a context where cond is assumed; assumptions made inside become implications.
func (v *FnV) guarded(st *State, cond string, f func()) {
	start := len(st.items)
	heapsBefore := map[string]string{}
	for k, h := range st.heaps {
		heapsBefore[k] = h
	}
	epochBefore := st.epoch
	envBefore := map[types.Object]Value{}
	for k, val := range st.env {
		envBefore[k] = val
	}
	st.items = append(st.items, Item{Assume: cond})
	f()
	// rewrite
	items := st.items
	st.items = append([]Item(nil), items[:start]...)
	for _, it := range items[start+1:] {
		if it.Decl != "" {
			st.items = append(st.items, it)
		} else {
			st.items = append(st.items, Item{Assume: sImp(cond, it.Assume)})
		}
	}
	if st.epoch != epochBefore {
		// a havocking call happened conditionally: forget everything
		st.havocAllHeaps()
	} else {
		for k, h := range st.heaps {
			old, ok := heapsBefore[k]
			if !ok {
				old = st.epochHeap(k)
			}
			if old != h {
				st.heaps[k] = st.define(k, st.hsort[k], sIte(cond, h, old))
			}
		}
	}
	for k, val := range st.env {
		if old, ok := envBefore[k]; ok && old.S != val.S {
			st.env[k] = Value{T: val.T, S: st.define("g", v.c.sortOf(val.T), sIte(cond, val.S, old.S))}
		}
	}
}

func (v *FnV) binary(st *State, x *ast.BinaryExpr) Value {
	t := v.typeOf(x)
	switch x.Op {
	case token.LAND, token.LOR:
		a := v.expr(st, x.X)
		an := st.define("sc", "Bool", a.S)
		var b Value
		cond := an
		if x.Op == token.LOR {
			cond = sNot(an)
		}
		v.guarded(st, cond, func() { b = v.expr(st, x.Y) })
		if x.Op == token.LAND {
			return Value{T: t, S: sAnd(an, b.S)}
		}
		return Value{T: t, S: sOr(an, b.S)}
	}
	a := v.expr(st, x.X)
	b := v.expr(st, x.Y)
	switch x.Op {
	case token.EQL:
		return Value{T: t, S: v.eq(st, a, b, x)}
	case token.NEQ:
		return Value{T: t, S: sNot(v.eq(st, a, b, x))}
	}
	return v.binop(st, x.Op, a, b, t, x)
}

func (v *FnV) binop(st *State, op token.Token, a, b Value, t types.Type, n ast.Node) Value {
	switch op {
	case token.LSS, token.LEQ, token.GTR, token.GEQ:
		if isString(a.T) || isString(b.T) {
			v.c.strLtFns()
			var s string
			switch op {
			case token.LSS:
				s = sx("str_lt", a.S, b.S)
			case token.GTR:
				s = sx("str_lt", b.S, a.S)
			case token.LEQ:
				s = sNot(sx("str_lt", b.S, a.S))
			case token.GEQ:
				s = sNot(sx("str_lt", a.S, b.S))
			}
			return Value{T: tBool, S: s}
		}
		return Value{T: tBool, S: v.c.cmp(op, a, b)}
	}
	if isString(t) && op == token.ADD {
		return Value{T: t, S: v.concat(st, a.S, b.S)}
	}
	if isFloatType(t) {
		var f string
		switch op {
		case token.ADD:
			f = "fp.add"
		case token.SUB:
			f = "fp.sub"
		case token.MUL:
			f = "fp.mul"
		case token.QUO:
			f = "fp.div"
		}
		if f != "" {
			return Value{T: t, S: sx(f, "RNE", a.S, b.S)}
		}
	}
	if isBoolType(t) {
		switch op {
		case token.AND, token.LAND:
			return Value{T: t, S: sAnd(a.S, b.S)}
		case token.OR, token.LOR:
			return Value{T: t, S: sOr(a.S, b.S)}
		}
	}
	if isIntType(t) {
		if op == token.SHL || op == token.SHR {
			// shift count: negative count panics (signed counts only)
			if _, signed := intInfo(b.T); signed && b.T != nil {
				if !v.c.bv {
					v.safety(st, "shift", n, sGe(b.S, "0"), "shift count is non-negative")
				}
			}
			if !v.c.bv {
				if bits, _ := intInfo(t); bits > 0 {
					if _, isLit := litInt(b.S); !isLit {
						// Go: shifting by >= width gives 0 (or -1 for negative signed >>)
						res, _ := v.c.arith(op, a, Value{T: b.T, S: b.S}, t, false)
						big := sGe(b.S, fmt.Sprint(bits))
						z := "0"
						if op == token.SHR {
							z = sIte(sLt(a.S, "0"), "(- 1)", "0")
						}
						return Value{T: t, S: sIte(big, z, res)}
					}
				}
			}
		}
		res, pre := v.c.arith(op, a, b, t, false)
		if pre != "true" {
			kind := "div"
			if op == token.SHL || op == token.SHR {
				kind = "shift"
			}
			v.safety(st, kind, n, pre, "divisor is not zero")
		}
		if res == "" {
			v.abstract(n, "unsupported integer operator "+op.String())
			return v.havoc(st, "arith", t)
		}
		return Value{T: t, S: res}
	}
	v.abstract(n, "unsupported binary operator "+op.String())
	return v.havoc(st, "bin", t)
}

// concat: fresh base with quantified content axioms.
func (v *FnV) concat(st *State, a, b string) string {
	if a == "emptystr" {
		return b
	}
	if b == "emptystr" {
		return a
	}
	cb := v.c.freshName("catb")
	st.declare(cb, "(Array Int Int)")
	la := st.define("la", "Int", sx("slen", a))
	lb := st.define("lb", "Int", sx("slen", b))
	st.axiom(fmt.Sprintf("(forall ((k!c Int)) (! (=> (and (<= 0 k!c) (< k!c %s)) (= (select %s k!c) (sat %s k!c))) :pattern ((select %s k!c))))", la, cb, a, cb))
	st.axiom(fmt.Sprintf("(forall ((k!c Int)) (! (=> (and (<= %s k!c) (< k!c (+ %s %s))) (= (select %s k!c) (sat %s (- k!c %s)))) :pattern ((select %s k!c))))", la, la, lb, cb, b, la, cb))
	return fmt.Sprintf("(mkstr %s 0 (+ %s %s))", cb, la, lb)
}

// eq implements Go ==.
func (v *FnV) eq(st *State, a, b Value, n ast.Node) string {
	ta, tb := a.T, b.T
	isNil := func(t types.Type) bool {
		if t == nil {
			return false
		}
		bt, ok := t.(*types.Basic)
		return ok && bt.Kind() == types.UntypedNil
	}
	if isNil(ta) && isNil(tb) {
		return "true"
	}
	if isNil(ta) {
		a, b = b, a
		ta, tb = tb, ta
	}
	if isNil(tb) {
		switch {
		case isInterface(ta):
			return sEq(sx("vtag", a.S), "0")
		case v.c.sortOf(ta) == sortSlice:
			return sEq(sx("sref", a.S), "0")
		default:
			return sEq(a.S, "0")
		}
	}
	if isInterface(ta) && !isInterface(tb) {
		b = Value{T: ta, S: v.c.toIface(b)}
		tb = ta
		// comparing with a concrete comparable value never panics
		return sx("val_eq", a.S, b.S)
	}
	if isInterface(tb) && !isInterface(ta) {
		a = Value{T: tb, S: v.c.toIface(a)}
		return sx("val_eq", a.S, b.S)
	}
	if isInterface(ta) && isInterface(tb) {
		// run-time panic if both dynamic types are identical and uncomparable
		if n != nil {
			cmpOK := sOr(sNot(sEq(sx("vtag", a.S), sx("vtag", b.S))), sNot(sEq(sx("tagclass", sx("vtag", a.S)), fmt.Sprint(clsUncmp))))
			if !v.staticallyComparable(a, b) {
				v.safety(st, "cmp", n, cmpOK, "== on interface values whose dynamic type may be uncomparable")
			}
		}
		return sx("val_eq", a.S, b.S)
	}
	if isString(ta) {
		if lit, ok := v.litContent(b.S); ok {
			return v.c.strEq(a.S, b.S, &lit)
		}
		if lit, ok := v.litContent(a.S); ok {
			return v.c.strEq(b.S, a.S, &lit)
		}
		return sx("str_eq", a.S, b.S)
	}
	if isFloatType(ta) {
		return sx("fp.eq", a.S, b.S)
	}
	if stt := structType(ta); stt != nil {
		var parts []string
		for i := 0; i < stt.NumFields(); i++ {
			ft := v.substT(stt.Field(i).Type())
			parts = append(parts, v.eq(st, Value{T: ft, S: v.c.fieldGet(ta, a.S, i)}, Value{T: ft, S: v.c.fieldGet(ta, b.S, i)}, nil))
		}
		return sAnd(parts...)
	}
	if v.c.bv {
		a = v.c.coerceBV(a, b.T)
		b = v.c.coerceBV(b, a.T)
	}
	return sEq(a.S, b.S)
}

// staticallyComparable: an interface value that is known to be the sentinel/nil or boxed comparable.
func (v *FnV) staticallyComparable(a, b Value) bool {
	for _, x := range []Value{a, b} {
		if len(x.S) > 7 && x.S[:7] == "(mkval " {
			var tag int
			if _, err := fmt.Sscanf(x.S[7:], "%d", &tag); err == nil && tag%8 != clsUncmp {
				return true
			}
		}
		if x.S == "nilval" {
			return true
		}
	}
	return false
}

func (v *FnV) litContent(term string) (string, bool) {
	if term == "emptystr" {
		return "", true
	}
	if s, ok := v.c.litByName[term]; ok {
		return s, true
	}
	return "", false
}

// convert implements assignability/explicit conversion to type t.
func (v *FnV) convert(st *State, val Value, t types.Type) Value {
	if t == nil {
		return val
	}
	t = v.substT(t)
	if val.T == nil {
		if isFloatType(t) {
			// (to_fp of a symbolic Real is mishandled by z3 5.1: only literals are converted directly)
			return Value{T: t, S: v.intToFloat(st, Value{T: tInt, S: val.S}, t)}
		}
		return Value{T: t, S: v.c.coerceBV(val, t).S}
	}
	if bt, ok := val.T.(*types.Basic); ok && bt.Kind() == types.UntypedNil {
		return Value{T: t, S: v.c.zeroOf(t)}
	}
	if types.Identical(val.T, t) {
		return Value{T: t, S: val.S}
	}
	if isInterface(t) {
		return Value{T: t, S: v.c.toIface(val)}
	}
	if isInterface(val.T) {
		// only via type assertion; keep
		return Value{T: t, S: v.c.fromIface(val.S, t)}
	}
	if isIntType(t) && isIntType(val.T) {
		return Value{T: t, S: v.intConv(val, t)}
	}
	if isFloatType(t) && isIntType(val.T) {
		return Value{T: t, S: v.intToFloat(st, val, t)}
	}
	if isIntType(t) && isFloatType(val.T) {
		v.c.glob("f2i", "(declare-fun f2i (F64) Int)")
		r := sx("f2i", val.S)
		st.assume(v.c.rangeOf(t, r, st.alloc))
		return Value{T: t, S: r}
	}
	if isFloatType(t) && isFloatType(val.T) {
		sa, sb := v.c.sortOf(val.T), v.c.sortOf(t)
		if sa == sb {
			return Value{T: t, S: val.S}
		}
		if sb == sortF32 {
			return Value{T: t, S: sx("(_ to_fp 8 24)", "RNE", val.S)}
		}
		return Value{T: t, S: sx("(_ to_fp 11 53)", "RNE", val.S)}
	}
	if isString(t) && isIntType(val.T) {
		// string(rune)
		v.c.utf8Fns()
		return Value{T: t, S: sx("runestr", val.S)}
	}
	if isString(t) {
		if _, ok := val.T.Underlying().(*types.Slice); ok {
			// string([]byte) / string([]rune): fresh string; for []byte contents are copied
			return v.bytesToString(st, val)
		}
	}
	if sl, ok := t.Underlying().(*types.Slice); ok && isString(val.T) {
		return v.stringToBytes(st, val, t, sl)
	}
	// same underlying representation (named <-> unnamed)
	if v.c.sortOf(t) == v.c.sortOf(val.T) {
		return Value{T: t, S: val.S}
	}
	if st1, st2 := structType(t), structType(val.T); st1 != nil && st2 != nil && st1.NumFields() == st2.NumFields() {
		fs := make([]string, st1.NumFields())
		for i := range fs {
			fs[i] = v.c.fieldGet(val.T, val.S, i)
		}
		return Value{T: t, S: v.c.mkStruct(t, fs)}
	}
	v.abstract(nil, fmt.Sprintf("unsupported conversion %s -> %s", val.T, t))
	return v.havoc(st, "conv", t)
}

func (v *FnV) intConv(val Value, t types.Type) string {
	fb, fs := intInfo(val.T)
	tb, ts := intInfo(t)
	if v.c.bv {
		if fb == 0 {
			fb = 64
		}
		if tb == 0 {
			tb = 64
		}
		switch {
		case tb == fb:
			return val.S
		case tb < fb:
			return fmt.Sprintf("((_ extract %d 0) %s)", tb-1, val.S)
		case fs:
			return fmt.Sprintf("((_ sign_extend %d) %s)", tb-fb, val.S)
		default:
			return fmt.Sprintf("((_ zero_extend %d) %s)", tb-fb, val.S)
		}
	}
	if tb == 0 {
		return val.S
	}
	// widening within the same signedness, or unsigned -> wider signed: identity
	if fb != 0 && ((fs == ts && tb >= fb) || (!fs && ts && tb > fb)) {
		return val.S
	}
	return v.c.wrap(t, val.S, fb == tb)
}

func (v *FnV) intToFloat(st *State, val Value, t types.Type) string {
	if v.c.bv {
		_, signed := intInfo(val.T)
		if signed {
			return sx("(_ to_fp 11 53)", "RNE", val.S)
		}
		return sx("(_ to_fp_unsigned 11 53)", "RNE", val.S)
	}
	if n, ok := litInt(val.S); ok {
		return fmt.Sprintf("((_ to_fp 11 53) RNE %s.0)", sBig(n))
	}
	v.c.glob("i2f", "(declare-fun i2f (Int) F64)",
		"(assert (forall ((a Int) (b Int)) (! (=> (<= a b) (fp.leq (i2f a) (i2f b))) :pattern ((i2f a) (i2f b)))))",
		"(assert (forall ((a Int)) (! (not (fp.isNaN (i2f a))) :pattern ((i2f a)))))",
		"(assert (= (i2f 0) fpzero))")
	return sx("i2f", val.S)
}

func (v *FnV) bytesToString(st *State, val Value) Value {
	sl, _ := val.T.Underlying().(*types.Slice)
	n := v.c.freshName("bstr")
	st.declare(n, sortStr)
	st.assume(sAnd(sEq(sx("soff", n), "0"), sLe("0", sx("slen", n))))
	if bits, _ := intInfo(sl.Elem()); bits == 8 {
		_, h := v.elemHeap(st, sl.Elem())
		st.assume(sEq(sx("slen", n), sx("sllen", val.S)))
		st.axiom(fmt.Sprintf("(forall ((k!c Int)) (! (=> (and (<= 0 k!c) (< k!c (slen %s))) (= (sat %s k!c) (select (select %s (sref %s)) (+ (sloff %s) k!c)))) :pattern ((sat %s k!c))))", n, n, h, val.S, val.S, n))
	}
	return Value{T: tString, S: n}
}

func (v *FnV) stringToBytes(st *State, val Value, t types.Type, sl *types.Slice) Value {
	ref := v.alloc(st, "bytes")
	res := v.c.freshName("bs")
	st.declare(res, sortSlice)
	st.assume(sAnd(sEq(sx("sref", res), ref), sEq(sx("sloff", res), "0"), sLe("0", sx("sllen", res)), sLe(sx("sllen", res), sx("slcap", res))))
	if bits, _ := intInfo(sl.Elem()); bits == 8 {
		st.assume(sEq(sx("sllen", res), sx("slen", val.S)))
		name, h := v.elemHeap(st, sl.Elem())
		arr := v.c.freshName("arr")
		st.declare(arr, "(Array Int Int)")
		st.axiom(fmt.Sprintf("(forall ((k!c Int)) (! (=> (and (<= 0 k!c) (< k!c (slen %s))) (= (select %s k!c) (sat %s k!c))) :pattern ((select %s k!c))))", val.S, arr, val.S, arr))
		st.setHeap(name, sStore(h, ref, arr))
	}
	return Value{T: t, S: res}
}

// ---------- composite literals ----------

func (v *FnV) compositeLit(st *State, x *ast.CompositeLit, t types.Type) Value {
	switch u := t.Underlying().(type) {
	case *types.Struct:
		fs := make([]string, u.NumFields())
		for i := range fs {
			fs[i] = v.c.zeroOf(v.substT(u.Field(i).Type()))
		}
		for i, el := range x.Elts {
			if kv, ok := el.(*ast.KeyValueExpr); ok {
				name := kv.Key.(*ast.Ident).Name
				for k := 0; k < u.NumFields(); k++ {
					if u.Field(k).Name() == name {
						fs[k] = v.elt(st, kv.Value, v.substT(u.Field(k).Type())).S
					}
				}
			} else if i < len(fs) {
				fs[i] = v.elt(st, el, v.substT(u.Field(i).Type())).S
			}
		}
		return Value{T: t, S: v.c.mkStruct(t, fs)}
	case *types.Slice:
		elem := v.substT(u.Elem())
		ref := v.alloc(st, "slit")
		name, h := v.elemHeap(st, elem)
		arr := sSelect(h, ref)
		n := 0
		idx := 0
		for _, el := range x.Elts {
			if kv, ok := el.(*ast.KeyValueExpr); ok {
				if tv, ok := v.info().Types[kv.Key]; ok && tv.Value != nil {
					if k, ok := constInt(tv); ok {
						idx = k
					}
				}
				el = kv.Value
			}
			arr = sStore(arr, fmt.Sprint(idx), v.elt(st, el, elem).S)
			idx++
			if idx > n {
				n = idx
			}
		}
		st.setHeap(name, sStore(h, ref, arr))
		return Value{T: t, S: fmt.Sprintf("(mkslice %s 0 %d %d)", ref, n, n)}
	case *types.Array:
		elem := v.substT(u.Elem())
		arr := v.c.zeroOf(t)
		idx := 0
		for _, el := range x.Elts {
			if kv, ok := el.(*ast.KeyValueExpr); ok {
				if tv, ok := v.info().Types[kv.Key]; ok && tv.Value != nil {
					if k, ok := constInt(tv); ok {
						idx = k
					}
				}
				el = kv.Value
			}
			arr = sStore(arr, fmt.Sprint(idx), v.elt(st, el, elem).S)
			idx++
		}
		return Value{T: t, S: st.define("arr", v.c.sortOf(t), arr)}
	case *types.Map:
		m := Value{T: t, S: v.alloc(st, "map")}
		v.mapInit(st, u, m)
		for _, el := range x.Elts {
			kv := el.(*ast.KeyValueExpr)
			k := v.elt(st, kv.Key, v.substT(u.Key()))
			val := v.elt(st, kv.Value, v.substT(u.Elem()))
			v.mapStore(st, u, m, k, val)
		}
		return m
	}
	v.abstract(x, "unsupported composite literal")
	return v.havoc(st, "lit", t)
}

func constInt(tv types.TypeAndValue) (int, bool) {
	if tv.Value == nil {
		return 0, false
	}
	var n int
	if _, err := fmt.Sscanf(tv.Value.ExactString(), "%d", &n); err != nil {
		return 0, false
	}
	return n, true
}

// elt evaluates a composite-literal element, handling elided types.
func (v *FnV) elt(st *State, e ast.Expr, t types.Type) Value {
	if cl, ok := e.(*ast.CompositeLit); ok && cl.Type == nil {
		if pt, ok := t.Underlying().(*types.Pointer); ok {
			val := v.compositeLit(st, cl, v.substT(pt.Elem()))
			ref := v.alloc(st, "lit")
			v.store(st, v.substT(pt.Elem()), ref, val.S)
			return Value{T: t, S: ref}
		}
		return v.compositeLit(st, cl, t)
	}
	return v.convert(st, v.expr(st, e), t)
}

// ---------- maps ----------

// mapKey: the SMT index used for a key. Strings are identified by CONTENT: skey is injective
// on contents (two Go strings are the same key exactly when they are equal as strings).
func (v *FnV) mapKey(mt *types.Map, k Value) Value {
	if !isString(v.substT(mt.Key())) {
		return k
	}
	v.c.glob("skey", "(declare-fun skey (Str) Int)",
		"(assert (forall ((a!k Str) (b!k Str)) (! (= (str_eq a!k b!k) (= (skey a!k) (skey b!k))) :pattern ((skey a!k) (skey b!k)))))")
	return Value{T: k.T, S: sx("skey", k.S)}
}

func (v *FnV) mapHeaps(st *State, mt *types.Map) (pn, ph, vn, vh string, ok bool) {
	kt := v.substT(mt.Key())
	if !(isIntType(kt) || isBoolType(kt) || isString(kt)) {
		return "", "", "", "", false
	}
	ks := v.c.sortOf(kt)
	if isString(kt) {
		ks = "Int" // string keys are mapped to content identifiers (skey)
	}
	key := mangle(typeKey(mt))
	pn, vn = "MP_"+key, "MV_"+key
	ph = st.heap(pn, fmt.Sprintf("(Array Int (Array %s Bool))", ks))
	vh = st.heap(vn, fmt.Sprintf("(Array Int (Array %s %s))", ks, v.c.sortOf(v.substT(mt.Elem()))))
	return pn, ph, vn, vh, true
}

func (v *FnV) mapInit(st *State, mt *types.Map, m Value) {
	pn, ph, _, _, ok := v.mapHeaps(st, mt)
	if !ok {
		return
	}
	ks := v.c.sortOf(v.substT(mt.Key()))
	if isString(v.substT(mt.Key())) {
		ks = "Int"
	}
	st.setHeap(pn, sStore(ph, m.S, fmt.Sprintf("((as const (Array %s Bool)) false)", ks)))
}

func (v *FnV) mapLookup(st *State, mt *types.Map, m Value, k Value) (Value, string) {
	et := v.substT(mt.Elem())
	_, ph, _, vh, ok := v.mapHeaps(st, mt)
	if !ok {
		v.abstract(nil, "map with non-integer key: lookups are havoc")
		val := st.freshVal("mv", et)
		p := st.freshVal("present", tBool)
		return Value{T: et, S: sIte(p.S, val.S, v.c.zeroOf(et))}, p.S
	}
	k = v.mapKey(mt, k)
	present := sAnd(sNot(sEq(m.S, "0")), sSelect(sSelect(ph, m.S), k.S))
	pn := st.define("present", "Bool", present)
	raw := sSelect(sSelect(vh, m.S), k.S)
	st.assume(v.c.rangeOf(et, raw, st.alloc))
	return Value{T: et, S: sIte(pn, raw, v.c.zeroOf(et))}, pn
}

func (v *FnV) mapStore(st *State, mt *types.Map, m Value, k Value, val Value) {
	pn, ph, vn, vh, ok := v.mapHeaps(st, mt)
	if !ok {
		return
	}
	k = v.mapKey(mt, k)
	v.writeCheck(st, m.S, "map store")
	st.setHeap(pn, sStore(ph, m.S, sStore(sSelect(ph, m.S), k.S, "true")))
	st.setHeap(vn, sStore(vh, m.S, sStore(sSelect(vh, m.S), k.S, val.S)))
	v.logCall(st, &callInfo{full: "mapstore", recv: &m}, nil) // logged when "mapstore" is a log kind
}

func (v *FnV) mapDelete(st *State, mt *types.Map, m Value, k Value) {
	pn, ph, _, _, ok := v.mapHeaps(st, mt)
	if !ok {
		return
	}
	k = v.mapKey(mt, k)
	v.writeCheck(st, m.S, "map delete")
	st.setHeap(pn, sStore(ph, m.S, sStore(sSelect(ph, m.S), k.S, "false")))
	v.logCall(st, &callInfo{full: "mapdelete", recv: &m}, nil)
}
