package main

import (
	"fmt"
	"go/ast"
	"go/types"
	"math/big"
)

// Trusted contracts of math/big over ghost mathematical values:
//   BIGINT : ref -> Int   value of a *big.Int
//   BIGRAT : ref -> Real  value of a *big.Rat
// Operations that the library documents as panicking (division by zero in Quo,
// Rem, Inv, SetFrac, NewRat) carry an obligation. Aliasing between receiver and
// arguments is handled by reading all arguments before writing the receiver.

const (
	bigIntHeap = "BIGINT"
	bigRatHeap = "BIGRAT"
)

func (v *FnV) bigInt(st *State, ref string) string {
	return sSelect(st.heap(bigIntHeap, "(Array Int Int)"), ref)
}

func (v *FnV) setBigInt(st *State, ref, val string) {
	h := st.heap(bigIntHeap, "(Array Int Int)")
	st.setHeap(bigIntHeap, sStore(h, ref, val))
}

func (v *FnV) bigRat(st *State, ref string) string {
	return sSelect(st.heap(bigRatHeap, "(Array Int Real)"), ref)
}

func (v *FnV) setBigRat(st *State, ref, val string) {
	h := st.heap(bigRatHeap, "(Array Int Real)")
	st.setHeap(bigRatHeap, sStore(h, ref, val))
}

func sSign(x, zero string) string {
	return sIte(sLt(x, zero), "(- 1)", sIte(sEq(x, zero), "0", "1"))
}

func (c *Ctx) ipowFns() {
	c.glob("ipow", "(declare-fun ipow (Int Int) Int)",
		"(assert (forall ((a Int) (b Int)) (! (=> (>= b 0) (= (= (ipow a b) 0) (and (= a 0) (> b 0)))) :pattern ((ipow a b)))))",
		"(assert (forall ((a Int)) (! (= (ipow a 0) 1) :pattern ((ipow a 0)))))",
		"(assert (forall ((a Int)) (! (= (ipow a 1) a) :pattern ((ipow a 1)))))",
		"(assert (forall ((a Int) (b Int)) (! (=> (and (> a 0) (>= b 0)) (> (ipow a b) 0)) :pattern ((ipow a b)))))")
}

func init() {
	type mf = func(v *FnV, st *State, call *ast.CallExpr, recv *Value, args []Value) []Value
	reg := func(name string, f mf) { stdModels[name] = stdModel{pure: false, f: f} }
	regPure := func(name string, f mf) { stdModels[name] = stdModel{pure: true, f: f} }
	bigIntT := func(v *FnV) types.Type { return types.NewPointer(v.e.lookupType("math/big", "Int")) }
	bigRatT := func(v *FnV) types.Type { return types.NewPointer(v.e.lookupType("math/big", "Rat")) }
	trust := func(v *FnV) { v.c.trusted["math/big modelled by ghost mathematical values (Int/Real) with the documented panics as obligations"] = true }

	reg("math/big.NewInt", func(v *FnV, st *State, call *ast.CallExpr, recv *Value, args []Value) []Value {
		trust(v)
		ref := v.alloc(st, "bigint")
		v.setBigInt(st, ref, v.mathInt(args[0]))
		return []Value{{T: bigIntT(v), S: ref}}
	})
	reg("math/big.NewRat", func(v *FnV, st *State, call *ast.CallExpr, recv *Value, args []Value) []Value {
		trust(v)
		v.safety(st, "call:NewRat", call, sNot(sEq(v.mathInt(args[1]), "0")), "big.NewRat: denominator must not be zero")
		ref := v.alloc(st, "bigrat")
		v.setBigRat(st, ref, sx("/", sx("to_real", v.mathInt(args[0])), sx("to_real", v.mathInt(args[1]))))
		return []Value{{T: bigRatT(v), S: ref}}
	})
	// ---- *big.Int ----
	regPure("math/big.Int.Sign", func(v *FnV, st *State, call *ast.CallExpr, recv *Value, args []Value) []Value {
		return []Value{v.goInt(tInt, sSign(v.bigInt(st, recv.S), "0"))}
	})
	regPure("math/big.Int.Cmp", func(v *FnV, st *State, call *ast.CallExpr, recv *Value, args []Value) []Value {
		return []Value{v.goInt(tInt, sSign(sx("-", v.bigInt(st, recv.S), v.bigInt(st, args[0].S)), "0"))}
	})
	regPure("math/big.Int.IsInt64", func(v *FnV, st *State, call *ast.CallExpr, recv *Value, args []Value) []Value {
		x := v.bigInt(st, recv.S)
		return []Value{{T: tBool, S: sAnd(sLe("(- 9223372036854775808)", x), sLe(x, "9223372036854775807"))}}
	})
	regPure("math/big.Int.Int64", func(v *FnV, st *State, call *ast.CallExpr, recv *Value, args []Value) []Value {
		// undefined when it does not fit: low 64 bits
		return []Value{v.goInt(types.Typ[types.Int64], sx("wrap64", v.bigInt(st, recv.S)))}
	})
	intBin := func(name string, f func(a, b string) string, nonzero bool) {
		reg("math/big.Int."+name, func(v *FnV, st *State, call *ast.CallExpr, recv *Value, args []Value) []Value {
			a, b := v.bigInt(st, args[0].S), v.bigInt(st, args[1].S)
			if nonzero {
				v.safety(st, "call:"+name, call, sNot(sEq(b, "0")), "big.Int."+name+": division by zero")
				v.c.ensurePreludeFns()
			}
			v.setBigInt(st, recv.S, f(a, b))
			return []Value{*recv}
		})
	}
	intBin("Add", func(a, b string) string { return sx("+", a, b) }, false)
	intBin("Sub", func(a, b string) string { return sx("-", a, b) }, false)
	intBin("Mul", func(a, b string) string { return sx("*", a, b) }, false)
	intBin("Quo", func(a, b string) string { return sx("tdiv", a, b) }, true)
	intBin("Rem", func(a, b string) string { return sx("tmod", a, b) }, true)
	reg("math/big.Int.QuoRem", func(v *FnV, st *State, call *ast.CallExpr, recv *Value, args []Value) []Value {
		a, b := v.bigInt(st, args[0].S), v.bigInt(st, args[1].S)
		v.safety(st, "call:QuoRem", call, sNot(sEq(b, "0")), "big.Int.QuoRem: division by zero")
		v.c.ensurePreludeFns()
		v.setBigInt(st, recv.S, sx("tdiv", a, b))
		v.setBigInt(st, args[2].S, sx("tmod", a, b))
		return []Value{*recv, args[2]}
	})
	intUn := func(name string, f func(a string) string) {
		reg("math/big.Int."+name, func(v *FnV, st *State, call *ast.CallExpr, recv *Value, args []Value) []Value {
			v.setBigInt(st, recv.S, f(v.bigInt(st, args[0].S)))
			return []Value{*recv}
		})
	}
	intUn("Neg", func(a string) string { return sx("-", a) })
	intUn("Abs", func(a string) string { return sIte(sLt(a, "0"), sx("-", a), a) })
	intUn("Set", func(a string) string { return a })
	reg("math/big.Int.SetInt64", func(v *FnV, st *State, call *ast.CallExpr, recv *Value, args []Value) []Value {
		v.setBigInt(st, recv.S, v.mathInt(args[0]))
		return []Value{*recv}
	})
	reg("math/big.Int.SetUint64", func(v *FnV, st *State, call *ast.CallExpr, recv *Value, args []Value) []Value {
		v.setBigInt(st, recv.S, v.mathInt(args[0]))
		return []Value{*recv}
	})
	reg("math/big.Int.Exp", func(v *FnV, st *State, call *ast.CallExpr, recv *Value, args []Value) []Value {
		// only the m == nil form with a non-negative exponent is given a value
		v.c.ipowFns()
		a, b := v.bigInt(st, args[0].S), v.bigInt(st, args[1].S)
		res := st.freshVal("exp", nil)
		st.assume(sImp(sAnd(sEq(args[2].S, "0"), sGe(b, "0")), sEq(res.S, sx("ipow", a, b))))
		st.assume(sImp(sAnd(sEq(args[2].S, "0"), sLt(b, "0")), sEq(res.S, "1")))
		v.setBigInt(st, recv.S, res.S)
		return []Value{*recv}
	})
	// ---- *big.Rat ----
	regPure("math/big.Rat.Float64", func(v *FnV, st *State, call *ast.CallExpr, recv *Value, args []Value) []Value {
		// the nearest float64 (documented); "nearest" is left abstract: r2f is an uninterpreted function of the exact value
		trust(v)
		v.c.glob("r2f", "(declare-fun r2f (Real) F64)")
		exact := st.freshVal("exact", tBool)
		return []Value{{T: tFloat64, S: sx("r2f", v.bigRat(st, recv.S))}, exact}
	})
	regPure("math/big.Rat.Sign", func(v *FnV, st *State, call *ast.CallExpr, recv *Value, args []Value) []Value {
		return []Value{v.goInt(tInt, sSign(v.bigRat(st, recv.S), "0.0"))}
	})
	regPure("math/big.Rat.Cmp", func(v *FnV, st *State, call *ast.CallExpr, recv *Value, args []Value) []Value {
		return []Value{v.goInt(tInt, sSign(sx("-", v.bigRat(st, recv.S), v.bigRat(st, args[0].S)), "0.0"))}
	})
	regPure("math/big.Rat.IsInt", func(v *FnV, st *State, call *ast.CallExpr, recv *Value, args []Value) []Value {
		return []Value{{T: tBool, S: sx("is_int", v.bigRat(st, recv.S))}}
	})
	numDenom := func(v *FnV, st *State, recv *Value) (string, string) {
		// a fixed pair of component objects per rational value (lowest terms are not modelled)
		n, d := v.alloc(st, "num"), v.alloc(st, "denom")
		nv, dv := st.freshVal("numv", nil), st.freshVal("denomv", nil)
		st.assume(sAnd(sGt(dv.S, "0"), sEq(v.bigRat(st, recv.S), sx("/", sx("to_real", nv.S), sx("to_real", dv.S)))))
		v.setBigInt(st, n, nv.S)
		v.setBigInt(st, d, dv.S)
		return n, d
	}
	reg("math/big.Rat.Num", func(v *FnV, st *State, call *ast.CallExpr, recv *Value, args []Value) []Value {
		n, _ := numDenom(v, st, recv)
		return []Value{{T: bigIntT(v), S: n}}
	})
	reg("math/big.Rat.Denom", func(v *FnV, st *State, call *ast.CallExpr, recv *Value, args []Value) []Value {
		_, d := numDenom(v, st, recv)
		return []Value{{T: bigIntT(v), S: d}}
	})
	ratBin := func(name, op string, nonzero bool) {
		reg("math/big.Rat."+name, func(v *FnV, st *State, call *ast.CallExpr, recv *Value, args []Value) []Value {
			a, b := v.bigRat(st, args[0].S), v.bigRat(st, args[1].S)
			if nonzero {
				v.safety(st, "call:"+name, call, sNot(sEq(b, "0.0")), "big.Rat."+name+": division by zero")
			}
			v.setBigRat(st, recv.S, sx(op, a, b))
			return []Value{*recv}
		})
	}
	ratBin("Add", "+", false)
	ratBin("Sub", "-", false)
	ratBin("Mul", "*", false)
	ratBin("Quo", "/", true)
	reg("math/big.Rat.Inv", func(v *FnV, st *State, call *ast.CallExpr, recv *Value, args []Value) []Value {
		a := v.bigRat(st, args[0].S)
		v.safety(st, "call:Inv", call, sNot(sEq(a, "0.0")), "big.Rat.Inv: division by zero")
		v.setBigRat(st, recv.S, sx("/", "1.0", a))
		return []Value{*recv}
	})
	reg("math/big.Rat.Neg", func(v *FnV, st *State, call *ast.CallExpr, recv *Value, args []Value) []Value {
		v.setBigRat(st, recv.S, sx("-", v.bigRat(st, args[0].S)))
		return []Value{*recv}
	})
	reg("math/big.Rat.Abs", func(v *FnV, st *State, call *ast.CallExpr, recv *Value, args []Value) []Value {
		a := v.bigRat(st, args[0].S)
		v.setBigRat(st, recv.S, sIte(sLt(a, "0.0"), sx("-", a), a))
		return []Value{*recv}
	})
	reg("math/big.Rat.Set", func(v *FnV, st *State, call *ast.CallExpr, recv *Value, args []Value) []Value {
		v.setBigRat(st, recv.S, v.bigRat(st, args[0].S))
		return []Value{*recv}
	})
	reg("math/big.Rat.SetInt", func(v *FnV, st *State, call *ast.CallExpr, recv *Value, args []Value) []Value {
		v.setBigRat(st, recv.S, sx("to_real", v.bigInt(st, args[0].S)))
		return []Value{*recv}
	})
	reg("math/big.Rat.SetInt64", func(v *FnV, st *State, call *ast.CallExpr, recv *Value, args []Value) []Value {
		v.setBigRat(st, recv.S, sx("to_real", v.mathInt(args[0])))
		return []Value{*recv}
	})
	reg("math/big.Rat.SetFrac", func(v *FnV, st *State, call *ast.CallExpr, recv *Value, args []Value) []Value {
		a, b := v.bigInt(st, args[0].S), v.bigInt(st, args[1].S)
		v.safety(st, "call:SetFrac", call, sNot(sEq(b, "0")), "big.Rat.SetFrac: division by zero")
		v.setBigRat(st, recv.S, sx("/", sx("to_real", a), sx("to_real", b)))
		return []Value{*recv}
	})
	_ = fmt.Sprint
}

// mathInt converts a Go integer value to a mathematical integer term (identity
// in Int mode; signed/unsigned bit-vector interpretation in bv mode).
func (v *FnV) mathInt(a Value) string {
	if !v.c.bv || a.T == nil || !isIntType(a.T) {
		return a.S
	}
	bits, signed := intInfo(a.T)
	if bits == 0 {
		bits, signed = 64, true
	}
	n := sx("bv2nat", a.S)
	if signed {
		p := new(big.Int).Lsh(big.NewInt(1), uint(bits)).String()
		n = sIte(sx("bvslt", a.S, bvLit(0, bits)), sx("-", n, p), n)
	}
	return n
}

// goInt converts a mathematical integer term (already within range) to a Go integer value of type t.
func (v *FnV) goInt(t types.Type, term string) Value {
	if !v.c.bv {
		return Value{T: t, S: term}
	}
	bits, _ := intInfo(t)
	if bits == 0 {
		bits = 64
	}
	return Value{T: t, S: fmt.Sprintf("((_ int2bv %d) %s)", bits, term)}
}
