package main

import (
	"encoding/json"
	"fmt"
	"go/types"
	"os"
	"os/exec"
	"path/filepath"
	"regexp"
	"sort"
	"strconv"
	"strings"
	"time"
)

type Group struct {
	Name      string
	Kind      string
	Fn        string
	Instances []*Oblig
	OK        bool
	Fail      *Oblig
}

type KnownFinding struct {
	Property   string `json:"property"`
	Obligation string `json:"obligation"`
	What       string `json:"what"`
	Status     string `json:"status"` // open | fixed
	Commit     string `json:"commit,omitempty"`
	Replay     string `json:"replay,omitempty"`
}

type BoundedResult struct {
	Name       string  `json:"name"`
	Bound      string  `json:"bound"`
	Cases      int64   `json:"cases_enumerated"`
	Exhaustive bool    `json:"exhaustive_within_bound"`
	Passed     bool    `json:"passed"`
	WallS      float64 `json:"wall_s"`
	Cmd        string  `json:"cmd"`
	Label      string  `json:"label"`
}

type Report struct {
	eng                  *Engine
	cfg                  *PropConfig
	prop                 string
	tier                 string
	groups               []*Group
	funcs                []string
	outDir               string
	verif                string
	repo                 string
	LoadS                float64
	GenS                 float64
	WallS                float64
	start                time.Time
	slowMs               int64
	slowName, slowSolver string
	bounded              []BoundedResult
	bviol                []string
	knownBoundedN        int
}

func buildReport(eng *Engine, cfg *PropConfig, prop, tier string, obligs []*Oblig, funcs []string, outDir, verif, repo string) *Report {
	r := &Report{eng: eng, cfg: cfg, prop: prop, tier: tier, funcs: funcs, outDir: outDir, verif: verif, repo: repo}
	tagTypes := map[int]types.Type{}
	for _, tt := range eng.ctx.tagTypes {
		tagTypes[eng.ctx.tagOf(tt)] = tt
	}
	for _, ob := range obligs {
		if ob.Replay != nil && len(ob.Replay.TagTypes) == 0 {
			ob.Replay.TagTypes = tagTypes
		}
	}
	byName := map[string]*Group{}
	for _, ob := range obligs {
		key := ob.Name
		if ob.Canary && ob.Kind == "canary" {
			key = ob.Fn + "#vacuity"
		}
		g := byName[key]
		if g == nil {
			g = &Group{Name: key, Kind: ob.Kind, Fn: ob.Fn}
			byName[key] = g
			r.groups = append(r.groups, g)
		}
		g.Instances = append(g.Instances, ob)
	}
	for _, g := range r.groups {
		if g.Kind == "premise" {
			// a clause `A ==> B` is vacuous if A can hold at no return
			g.OK = false
			for _, ob := range g.Instances {
				if ob.Result != "unsat" && ob.Result != "error" {
					g.OK = true
				}
			}
			if !g.OK {
				g.Fail = g.Instances[0]
				g.Fail.Output = "the premise of this clause cannot hold at any return: the clause is vacuous (it constrains nothing)"
			}
			continue
		}
		if g.Kind == "canary" {
			// reachable if at least one return's canary is NOT provable
			g.OK = false
			for _, ob := range g.Instances {
				if ob.Result != "unsat" && ob.Result != "error" {
					g.OK = true
				}
			}
			if !g.OK {
				g.Fail = g.Instances[0]
				g.Fail.Output = "every return of the function is unreachable under the assumed contracts (vacuous proof)"
			}
			continue
		}
		g.OK = true
		for _, ob := range g.Instances {
			if ob.Result != "unsat" {
				g.OK = false
				if g.Fail == nil || (ob.Result == "sat" && g.Fail.Result != "sat") {
					g.Fail = ob
				}
			}
		}
	}
	return r
}

func (r *Report) printList() {
	for _, g := range r.groups {
		status := "ok  "
		if !g.OK {
			status = "FAIL"
		}
		var ms int64
		solver := ""
		for _, ob := range g.Instances {
			ms += ob.TimeMs
			if solver == "" {
				solver = ob.Solver
			}
		}
		fmt.Printf("%s %-70s n=%d %5dms %s", status, g.Name, len(g.Instances), ms, solver)
		if !g.OK && g.Fail != nil {
			fmt.Printf("  [%s] %s @%s", g.Fail.Result, g.Fail.Desc, g.Fail.Pos)
		}
		fmt.Println()
	}
	for _, a := range sortedKeys(r.eng.ctx.abstractions) {
		fmt.Println("abstraction:", a)
	}
}

func loadKnown(path string) []KnownFinding {
	b, err := os.ReadFile(path)
	if err != nil {
		return nil
	}
	var k []KnownFinding
	json.Unmarshal(b, &k)
	return k
}

var modelDef = regexp.MustCompile(`\(define-fun ([^ ]+) \(\) ([^\n]+)\n\s+([^\n]+)\)`)

func (r *Report) writeReplay(g *Group) (path string, found bool) {
	dir := filepath.Join(r.verif, "out", "replay", r.prop)
	os.MkdirAll(dir, 0o755)
	ob := g.Fail
	var b strings.Builder
	fmt.Fprintf(&b, "property: %s\nobligation: %s\nkind: %s\nfunction: %s\nposition: %s\nclause: %s\nresult: %s (solver %s, %d ms)\n",
		r.prop, g.Name, ob.Kind, ob.Fn, ob.Pos, ob.Desc, ob.Result, ob.Solver, ob.TimeMs)
	inputs := map[string]string{}
	if ob.Result == "sat" && ob.Model != "" {
		vals := map[string]string{}
		for _, m := range modelDef.FindAllStringSubmatch(ob.Model, -1) {
			vals[m[1]] = strings.TrimSpace(m[3])
		}
		fmt.Fprintf(&b, "counterexample (values of the function's parameters in the solver's model):\n")
		for _, p := range ob.Params {
			kv := strings.SplitN(p, "=", 2)
			if v, ok := vals[kv[1]]; ok {
				fmt.Fprintf(&b, "  %s = %s\n", kv[0], v)
				inputs[kv[0]] = v
			} else {
				fmt.Fprintf(&b, "  %s = (not constrained by the model)\n", kv[0])
			}
		}
	}
	fmt.Fprintf(&b, "\nsolver output:\n%s\n", truncate(ob.Output, 6000))
	base := filepath.Join(dir, mangle(g.Name))
	path = base + ".txt"
	// try to turn the model into a runnable Go test against the real code
	if ob.Result != "unsat" && ob.Result != "error" {
		if gopath, ok := r.tryGoReplay(g, inputs, base, &b); ok {
			os.WriteFile(path, []byte(b.String()), 0o644)
			return gopath, true
		}
	}
	if ob.SMT != "" {
		os.WriteFile(base+".smt2", []byte(ob.SMT), 0o644)
		fmt.Fprintf(&b, "\nSMT query: %s.smt2\n", base)
	}
	os.WriteFile(path, []byte(b.String()), 0o644)
	return path, false
}

func truncate(s string, n int) string {
	if len(s) > n {
		return s[:n] + "\n...[truncated]"
	}
	return s
}

// finish prints VIOLATION / KNOWN-FINDING lines, writes the evidence file and returns the exit code.
func (r *Report) finish(writeEvidence bool) int {
	known := loadKnown(filepath.Join(r.verif, "known_findings.json"))
	isKnown := func(name string) *KnownFinding {
		for i := range known {
			if known[i].Property == r.prop && known[i].Obligation == name && known[i].Status == "open" {
				return &known[i]
			}
		}
		return nil
	}
	os.RemoveAll(filepath.Join(r.verif, "out", "replay", r.prop))
	// bounded stand-ins
	r.runBounded()
	total, discharged, violations, knownN := 0, 0, 0, 0
	var samples []any
	var lines []string
	var engineErr bool
	for _, g := range r.groups {
		if g.Kind == "canary" {
			if !g.OK {
				path, _ := r.writeReplay(g)
				lines = append(lines, fmt.Sprintf("VIOLATION property=%s replay=%s obligation=%s vacuous-contract no-failing-input-found", r.prop, path, g.Name))
				violations++
			}
			continue
		}
		if g.OK {
			total++
			discharged++
			if len(samples) < 6 && g.Instances[0].SMT != "" {
				ob := g.Instances[0]
				samples = append(samples, map[string]any{"obligation": g.Name, "clause": ob.Desc, "at": ob.Pos, "instances": len(g.Instances),
					"solver": ob.Solver, "time_ms": ob.TimeMs, "smt_bytes": len(ob.SMT), "result": "unsat"})
			}
			continue
		}
		if kf := isKnown(g.Name); kf != nil && r.knownStillReproduces(kf) {
			knownN++
			lines = append(lines, fmt.Sprintf("KNOWN-FINDING: property=%s %s: %s", r.prop, g.Name, kf.What))
			continue
		}
		total++
		violations++
		if g.Fail.Result == "error" {
			engineErr = true
		}
		path, found := r.writeReplay(g)
		suffix := ""
		if !found {
			suffix = " no-failing-input-found"
		}
		lines = append(lines, fmt.Sprintf("VIOLATION property=%s replay=%s obligation=%s result=%s%s", r.prop, path, g.Name, g.Fail.Result, suffix))
	}
	for _, bv := range r.bviol {
		violations++
		lines = append(lines, bv)
	}
	if total == 0 && len(r.bounded) == 0 {
		lines = append(lines, fmt.Sprintf("VIOLATION property=%s replay=%s no obligations were generated (contracts missing?) no-failing-input-found", r.prop, filepath.Join(r.verif, "out", "replay", r.prop, "none.txt")))
		violations++
	}
	for _, l := range lines {
		fmt.Println(l)
	}
	var solverMs int64
	bySolver := map[string]int{}
	nInst := 0
	for _, g := range r.groups {
		for _, ob := range g.Instances {
			if g.OK && ob.TimeMs > r.slowMs {
				r.slowMs, r.slowName, r.slowSolver = ob.TimeMs, g.Name, ob.Solver
			}
			solverMs += ob.TimeMs
			bySolver[strings.TrimSuffix(ob.Solver, "(cached)")]++
			nInst++
		}
	}
	if !r.start.IsZero() {
		r.WallS = time.Since(r.start).Seconds() // whole run, including known-finding replays and bounded stand-ins
	}
	fmt.Printf("gvc %s %s: %d obligations (%d instances), %d discharged, %d violations, %d known findings; functions=%d; load %.1fs gen %.1fs solver-cpu %.1fs wall %.1fs\n",
		r.prop, r.tier, total, nInst, discharged, violations, knownN, len(r.funcs), r.LoadS, r.GenS, float64(solverMs)/1000, r.WallS)
	if writeEvidence {
		r.writeEvidence(total, discharged, violations, knownN, samples, bySolver, solverMs, nInst)
	}
	_ = engineErr
	if violations > 0 {
		return 1
	}
	return 0
}

func (r *Report) writeEvidence(total, discharged, violations, knownN int, samples []any, bySolver map[string]int, solverMs int64, nInst int) {
	level := r.cfg.Level
	if level == "" {
		level = "proof"
	}
	seed := 0
	if s := os.Getenv("VERIF_SEED"); s != "" {
		seed, _ = strconv.Atoi(s)
	}
	trusted := append([]string{}, r.cfg.Trusted...)
	trusted = append(trusted, sortedKeys(r.eng.ctx.trusted)...)
	trusted = append(trusted, "gvc VC generator (/verif/gvc) and the Go semantics it encodes (64-bit int, two's-complement wrap, IEEE-754 float64)",
		"SMT solvers: z3 4.8.12, z3-new 5.1.0, cvc5 1.0 (first unsat wins in quick tier; agreement required in thorough tier)",
		"append modelled as copy-to-fresh backing array (no capacity aliasing)")
	assumptions := append([]string{}, r.cfg.Assume...)
	assumptions = append(assumptions, "nil-pointer dereference is not an obligation unless the contract says nilcheck",
		"termination is proved only for loops with a decreases clause")
	var absList []string
	for _, a := range sortedKeys(r.eng.ctx.abstractions) {
		absList = append(absList, a)
	}
	if len(samples) == 0 {
		samples = append(samples, map[string]any{"note": "no solver-discharged obligation in this run"})
	}
	cov := map[string]any{
		"obligations":              total,
		"discharged":               discharged,
		"obligation_instances":     nInst,
		"known_findings_excluded":  knownN,
		"checker_cmd":              fmt.Sprintf("/verif/bin/gvc -prop %s -tier %s", r.prop, r.tier),
		"trusted_base":             trusted,
		"samples":                  samples,
		"functions_under_contract": r.funcs,
		"abstractions_havocked":    absList,
		"by_solver":                bySolver,
		"solver_time_s":            float64(solverMs) / 1000,
		"vc_generation_s":          r.GenS,
		"package_load_s":           r.LoadS,
		"bounded":                  r.bounded,
		"explanation":              r.cfg.Note,
		"slowest_discharged":       map[string]any{"obligation": r.slowName, "solver": r.slowSolver, "time_ms": r.slowMs},
	}
	ev := map[string]any{
		"property_id": r.prop,
		"tier":        r.tier,
		"seed":        seed,
		"level":       level,
		"coverage":    cov,
		"assumptions": assumptions,
		"wall_s":      r.WallS,
		"violations":  violations,
	}
	b, _ := json.MarshalIndent(ev, "", " ")
	// Self-test runs on deliberately broken trees set VERIF_EVIDENCE_DIR so that they never
	// overwrite the evidence of the unchanged tree.
	dir := filepath.Join(r.verif, "evidence")
	if d := os.Getenv("VERIF_EVIDENCE_DIR"); d != "" {
		dir = d
	}
	os.MkdirAll(dir, 0o755)
	os.WriteFile(filepath.Join(dir, r.prop+".json"), b, 0o644)
}

var boundedLine = regexp.MustCompile(`BOUNDED name=(\S+) cases=(\d+)`)

func (r *Report) runBounded() {
	for _, bc := range r.cfg.Bounded {
		if bc.Thorough && r.tier != "thorough" {
			continue
		}
		t0 := time.Now()
		src := filepath.Join(r.verif, "bounded", bc.File)
		dst := filepath.Join(r.repo, bc.Pkg, "zz_verif_bounded_test.go")
		ov := map[string]any{"Replace": map[string]string{dst: src}}
		ovb, _ := json.Marshal(ov)
		ovPath := filepath.Join(r.outDir, "overlay_"+mangle(bc.Name)+".json")
		os.WriteFile(ovPath, ovb, 0o644)
		args := []string{"test", "-overlay", ovPath, "-vet=off", "-count=1", "-timeout", "1500s", "-run", bc.Run, "-v", "./" + bc.Pkg}
		cmd := exec.Command("go", args...)
		cmd.Dir = r.repo
		cmd.Env = append(os.Environ(), "GOFLAGS=-mod=mod", "GOPROXY=off", "GOSUMDB=off", "GOTOOLCHAIN=local", "VERIF_TIER="+r.tier)
		for k, v := range bc.Env {
			cmd.Env = append(cmd.Env, k+"="+v)
		}
		out, err := cmd.CombinedOutput()
		res := BoundedResult{Name: bc.Name, Bound: bc.Bound, Exhaustive: true, Passed: err == nil, WallS: time.Since(t0).Seconds(),
			Cmd: "go " + strings.Join(args, " "), Label: "bounded (exhaustive within the stated bound; not counted as proved)"}
		for _, m := range boundedLine.FindAllStringSubmatch(string(out), -1) {
			n, _ := strconv.ParseInt(m[2], 10, 64)
			res.Cases += n
		}
		if err == nil && res.Cases == 0 {
			res.Passed = false
			err = fmt.Errorf("bounded harness enumerated zero cases")
		}
		if err != nil && len(bc.KnownEnv) > 0 {
			// A recorded known finding of this stand-in: the harness is re-run with the
			// environment that excludes exactly the recorded failing class. If that run
			// passes, only the known finding is present; anything else is a new violation.
			if kf := r.knownBounded(bc.Name); kf != nil {
				cmd2 := exec.Command("go", args...)
				cmd2.Dir = r.repo
				cmd2.Env = append(os.Environ(), "GOFLAGS=-mod=mod", "GOPROXY=off", "GOSUMDB=off", "GOTOOLCHAIN=local", "VERIF_TIER="+r.tier)
				for k, v := range bc.Env {
					cmd2.Env = append(cmd2.Env, k+"="+v)
				}
				for k, v := range bc.KnownEnv {
					cmd2.Env = append(cmd2.Env, k+"="+v)
				}
				out2, err2 := cmd2.CombinedOutput()
				var cases int64
				for _, m := range boundedLine.FindAllStringSubmatch(string(out2), -1) {
					n, _ := strconv.ParseInt(m[2], 10, 64)
					cases += n
				}
				if err2 == nil && cases > 0 {
					fmt.Printf("KNOWN-FINDING: property=%s bounded:%s: %s\n", r.prop, bc.Name, kf.What)
					res.Passed = true
					res.Cases = cases
					res.Label += "; known finding excluded: " + kf.What
					res.WallS = time.Since(t0).Seconds()
					r.bounded = append(r.bounded, res)
					r.knownBoundedN++
					continue
				}
			}
		}
		r.bounded = append(r.bounded, res)
		if err != nil {
			dir := filepath.Join(r.verif, "out", "replay", r.prop)
			os.MkdirAll(dir, 0o755)
			p := filepath.Join(dir, "bounded_"+mangle(bc.Name)+".txt")
			os.WriteFile(p, []byte(fmt.Sprintf("bounded stand-in %s failed (%v)\ncommand: (cd %s && go %s)\n\n%s", bc.Name, err, r.repo, strings.Join(args, " "), truncate(string(out), 20000))), 0o644)
			r.bviol = append(r.bviol, fmt.Sprintf("VIOLATION property=%s replay=%s bounded=%s", r.prop, p, bc.Name))
		}
	}
	sort.Slice(r.bounded, func(i, j int) bool { return r.bounded[i].Name < r.bounded[j].Name })
}

// tryGoReplay is implemented in replay.go.
