package main

import (
	"encoding/json"
	"flag"
	"fmt"
	"go/ast"
	"go/token"
	"go/types"
	"os"
	"path/filepath"
	"sort"
	"strings"
	"time"

	"golang.org/x/tools/go/packages"
)

type Engine struct {
	ctx       *Ctx
	fset      *token.FileSet
	pkgs      map[string]*packages.Package
	allPkgs   []*packages.Package
	cs        *Contracts
	decls     map[string]*ast.FuncDecl
	declPkg   map[string]*packages.Package
	constG    map[*types.Var]int
	assigned  map[*types.Var]bool
	repo      string
	pureMemo  map[string]bool
	litName   map[*ast.FuncLit]string
	litOf     map[string]*ast.FuncLit
	constInit map[*types.Var]types.TypeAndValue // package-level vars with a constant initialiser
	nonNilG   map[*types.Var]bool               // package-level vars initialised with &T{...} or a call of errors.New-like constructors
}

// PropConfig is one entry of /verif/props.json.
type PropConfig struct {
	ID       string       `json:"id"`
	Packages []string     `json:"packages"`
	Level    string       `json:"level"`
	Trusted  []string     `json:"trusted_base"`
	Assume   []string     `json:"assumptions"`
	Bounded  []BoundedCfg `json:"bounded"`
	Note     string       `json:"note"`
}

type BoundedCfg struct {
	Name     string            `json:"name"`
	Pkg      string            `json:"pkg"`   // package dir relative to repo
	File     string            `json:"file"`  // test file under /verif/bounded
	Run      string            `json:"run"`   // test name regexp
	Bound    string            `json:"bound"` // human-readable bound
	Thorough bool              `json:"thorough_only"`
	Env      map[string]string `json:"env"`
	KnownEnv map[string]string `json:"known_env"` // environment that excludes the recorded known finding of this stand-in
}

func main() {
	repo := flag.String("repo", "/repo", "repository root")
	prop := flag.String("prop", "", "property id")
	tier := flag.String("tier", "quick", "quick|thorough")
	verif := flag.String("verif", "/verif", "verif root")
	only := flag.String("only", "", "verify only functions whose name contains this")
	dump := flag.String("dump", "", "dump SMT of obligations whose name contains this")
	list := flag.Bool("list", false, "list obligations and results")
	timeout := flag.Int("timeout", 0, "solver timeout seconds (0 = tier default)")
	flag.Parse()
	if *prop == "" {
		fmt.Fprintln(os.Stderr, "usage: gvc -prop Cnn [-tier quick|thorough]")
		os.Exit(2)
	}
	start := time.Now()
	cfgs, err := loadProps(filepath.Join(*verif, "props.json"))
	if err != nil {
		fmt.Fprintln(os.Stderr, "props.json:", err)
		os.Exit(2)
	}
	cfg := cfgs[*prop]
	if cfg == nil {
		fmt.Fprintln(os.Stderr, "unknown property", *prop)
		os.Exit(2)
	}
	eng, err := load(*repo, cfg.Packages)
	if err != nil {
		fmt.Fprintln(os.Stderr, "load:", err)
		os.Exit(2)
	}
	loadT := time.Since(start)
	var obligs []*Oblig
	var funcs []string
	for _, full := range eng.cs.Order {
		fc := eng.cs.Funcs[full]
		if !hasProp(fc.Props, *prop) {
			continue
		}
		if *only != "" && !strings.Contains(full, *only) {
			continue
		}
		funcs = append(funcs, shortName(full))
		obligs = append(obligs, eng.safeVerify(fc)...)
	}
	for _, ln := range eng.cs.LOrder {
		lm := eng.cs.Lemmas[ln]
		if !hasProp(lm.Props, *prop) {
			continue
		}
		if *only != "" && !strings.Contains(ln, *only) {
			continue
		}
		funcs = append(funcs, "lemma "+shortName(ln))
		obligs = append(obligs, eng.verifyLemma(lm)...)
	}
	for _, e := range eng.cs.Errors {
		obligs = append(obligs, &Oblig{Name: "contracts#parse", Kind: "contract-wellformed", Quick: "error", Result: "error", Solver: "parser", Output: e, Desc: e})
	}
	genT := time.Since(start) - loadT
	to := 40
	if *tier == "thorough" {
		to = 180
	}
	if *timeout > 0 {
		to = *timeout
	}
	outDir := filepath.Join(*verif, "out", *prop)
	os.RemoveAll(outDir)
	os.MkdirAll(outDir, 0o755)
	if *dump != "" {
		for i, ob := range obligs {
			if strings.Contains(ob.Name, *dump) {
				p := filepath.Join(outDir, fmt.Sprintf("dump_%d_%s.smt2", i, mangle(ob.Name)))
				os.WriteFile(p, []byte(ob.SMT), 0o644)
				fmt.Println("dumped", ob.Name, "->", p)
			}
		}
	}
	expectedFail := map[string]bool{}
	for _, kf := range loadKnown(filepath.Join(*verif, "known_findings.json")) {
		if kf.Property == *prop && kf.Status == "open" {
			expectedFail[kf.Obligation] = true
		}
	}
	solveAll(obligs, outDir, to, *tier == "thorough", expectedFail)
	rep := buildReport(eng, cfg, *prop, *tier, obligs, funcs, outDir, *verif, *repo)
	rep.LoadS = loadT.Seconds()
	rep.GenS = genT.Seconds()
	rep.WallS = time.Since(start).Seconds()
	rep.start = start
	if *list {
		rep.printList()
	}
	code := rep.finish(*only == "")
	os.Exit(code)
}

func hasProp(ps []string, p string) bool {
	for _, x := range ps {
		if x == p {
			return true
		}
	}
	return false
}

func loadProps(path string) (map[string]*PropConfig, error) {
	b, err := os.ReadFile(path)
	if err != nil {
		return nil, err
	}
	var list []*PropConfig
	if err := json.Unmarshal(b, &list); err != nil {
		return nil, err
	}
	m := map[string]*PropConfig{}
	for _, c := range list {
		m[c.ID] = c
	}
	return m, nil
}

func load(repo string, patterns []string) (*Engine, error) {
	fset := token.NewFileSet()
	cfg := &packages.Config{
		Mode: packages.NeedName | packages.NeedFiles | packages.NeedSyntax | packages.NeedTypes | packages.NeedTypesInfo | packages.NeedImports | packages.NeedDeps,
		Dir:  repo, Fset: fset,
		BuildFlags: []string{"-tags=verif"},
		Env:        append(os.Environ(), "GOFLAGS=-mod=mod", "GOPROXY=off", "GOSUMDB=off", "GOTOOLCHAIN=local"),
	}
	pkgs, err := packages.Load(cfg, patterns...)
	if err != nil {
		return nil, err
	}
	e := &Engine{fset: fset, pkgs: map[string]*packages.Package{}, cs: newContracts(), decls: map[string]*ast.FuncDecl{},
		declPkg: map[string]*packages.Package{}, constG: map[*types.Var]int{}, assigned: map[*types.Var]bool{}}
	e.ctx = newCtx(fset)
	e.repo = repo
	var errs []string
	packages.Visit(pkgs, nil, func(p *packages.Package) {
		e.allPkgs = append(e.allPkgs, p)
		if !strings.HasPrefix(p.PkgPath, "src.elv.sh") {
			return
		}
		for _, pe := range p.Errors {
			errs = append(errs, pe.Error())
		}
		e.pkgs[p.PkgPath] = p
		for _, f := range p.Syntax {
			fname := fset.Position(f.Pos()).Filename
			if strings.HasSuffix(fname, "zz_verif_contracts.go") {
				e.cs.parseContractFile(p.PkgPath, func(c *ast.Comment) string {
					pos := fset.Position(c.Pos())
					return fmt.Sprintf("%s:%d", filepath.Base(filepath.Dir(pos.Filename))+"/"+filepath.Base(pos.Filename), pos.Line)
				}, f)
			}
			for _, d := range f.Decls {
				fd, ok := d.(*ast.FuncDecl)
				if !ok {
					continue
				}
				obj, ok := p.TypesInfo.Defs[fd.Name].(*types.Func)
				if !ok {
					continue
				}
				full := funcFullName(obj)
				e.decls[full] = fd
				e.declPkg[full] = p
				// function literals are addressable as <function>$<k> (k-th literal in source order):
				// a contract on that name verifies the literal as a function of its own, with the
				// variables it captures unknown at entry
				if fd.Body != nil {
					k := 0
					ast.Inspect(fd.Body, func(n ast.Node) bool {
						lit, ok := n.(*ast.FuncLit)
						if !ok {
							return true
						}
						k++
						name := fmt.Sprintf("%s$%d", full, k)
						id := ast.NewIdent(fmt.Sprintf("%s$%d", fd.Name.Name, k))
						id.NamePos = lit.Pos()
						e.decls[name] = &ast.FuncDecl{Name: id, Type: lit.Type, Body: lit.Body}
						e.declPkg[name] = p
						if e.litName == nil {
							e.litName = map[*ast.FuncLit]string{}
							e.litOf = map[string]*ast.FuncLit{}
						}
						e.litName[lit] = name
						e.litOf[name] = lit
						return true
					})
				}
			}
			for _, d := range f.Decls {
				gd, ok := d.(*ast.GenDecl)
				if !ok || gd.Tok != token.VAR {
					continue
				}
				for _, sp := range gd.Specs {
					vs := sp.(*ast.ValueSpec)
					for i, n := range vs.Names {
						if i >= len(vs.Values) {
							continue
						}
						if tv, ok := p.TypesInfo.Types[vs.Values[i]]; ok && tv.Value != nil {
							if vr, ok := p.TypesInfo.Defs[n].(*types.Var); ok {
								if e.constInit == nil {
									e.constInit = map[*types.Var]types.TypeAndValue{}
								}
								e.constInit[vr] = tv
							}
						}
						if u, ok := vs.Values[i].(*ast.UnaryExpr); ok && u.Op == token.AND {
							if _, ok := u.X.(*ast.CompositeLit); ok {
								if vr, ok := p.TypesInfo.Defs[n].(*types.Var); ok {
									if e.nonNilG == nil {
										e.nonNilG = map[*types.Var]bool{}
									}
									e.nonNilG[vr] = true
								}
							}
						}
					}
				}
			}
			// record assignments to package-level variables (for constGlobal)
			ast.Inspect(f, func(n ast.Node) bool {
				switch x := n.(type) {
				case *ast.AssignStmt:
					for _, l := range x.Lhs {
						if id := rootIdent(l); id != nil {
							if vr, ok := p.TypesInfo.Uses[id].(*types.Var); ok {
								e.assigned[vr] = true
							}
						}
					}
				case *ast.UnaryExpr:
					if x.Op == token.AND {
						if id := rootIdent(x.X); id != nil {
							if vr, ok := p.TypesInfo.Uses[id].(*types.Var); ok {
								e.assigned[vr] = true
							}
						}
					}
				}
				return true
			})
		}
	})
	if len(errs) > 0 {
		return nil, fmt.Errorf("package errors: %s", strings.Join(errs, "; "))
	}
	if len(e.pkgs) == 0 {
		return nil, fmt.Errorf("no packages loaded for %v", patterns)
	}
	return e, nil
}

// constGlobal: a package-level variable that is never reassigned in the loaded
// sources and whose type is error or a pointer: treated as an immutable non-nil constant.
func (e *Engine) constGlobal(vr *types.Var) bool {
	if e.assigned[vr] {
		return false
	}
	t := vr.Type()
	if isInterface(t) {
		return types.Identical(t, types.Universe.Lookup("error").Type())
	}
	return false
}

func (e *Engine) globalID(vr *types.Var) int {
	if id, ok := e.constG[vr]; ok {
		return id
	}
	id := 7000000 + len(e.constG)
	e.constG[vr] = id
	return id
}

func (e *Engine) safeVerify(fc *FuncContract) (obs []*Oblig) {
	defer func() {
		if r := recover(); r != nil {
			if os.Getenv("GVC_PANIC") != "" {
				panic(r)
			}
			obs = append(obs, &Oblig{Name: shortName(fc.FullName()) + "#engine", Fn: shortName(fc.FullName()), Kind: "engine", Quick: "error", Result: "error",
				Solver: "gvc", Output: fmt.Sprint("engine failure: ", r), Desc: "engine could not process the function"})
		}
	}()
	return e.verifyFunc(fc)
}

func sortedKeys(m map[string]bool) []string {
	var ks []string
	for k := range m {
		ks = append(ks, k)
	}
	sort.Strings(ks)
	return ks
}
