package main

import (
	"fmt"
	"go/ast"
	"go/token"
	"go/types"
	"path/filepath"
	"sort"
	"strings"

	"golang.org/x/tools/go/packages"
)

// Oblig is one named proof obligation instance.
type Oblig struct {
	Name   string
	Fn     string
	Kind   string
	Pos    string
	Desc   string
	SMT    string
	Canary bool   // must NOT be provable
	Quick  string // "", or a result decided without the solver
	// results
	Result  string // unsat, sat, unknown, timeout, error
	Solver  string
	TimeMs  int64
	Model   string
	Output  string
	Params  []string // parameter terms for replay (name=term)
	ParamTs []string
	Replay  *ReplayInfo
}

type exitKind int

const (
	exBreak exitKind = iota
	exContinue
	exReturn
	exFallthrough
)

type Exit struct {
	kind    exitKind
	label   string
	st      *State
	results []Value
	pre     []Value // results as assigned by the return statement, before deferred functions ran
	node    ast.Node
}

type Flow struct {
	normal *State
	exits  []Exit
}

type deferRec struct {
	lit   *ast.FuncLit
	call  *ast.CallExpr
	args  []Value
	frame *Frame
	cond  string // "" or the condition under which this defer was registered (paths merged after a conditional defer)
}

type Frame struct {
	pkg     *packages.Package
	body    *ast.BlockStmt
	ftype   *ast.FuncType
	sig     *types.Signature
	results []types.Object
	ord     map[ast.Node]int
	prefix  string
	subst   map[*types.TypeParam]types.Type
	name    string
	defers  int // index into state defers at frame entry
}

type FnV struct {
	e        *Engine
	c        *Ctx
	fc       *FuncContract
	name     string
	frames   []*Frame
	obligs   []*Oblig
	boxed    map[types.Object]bool
	entry    *State
	closures map[string]*closureRec
	nclos    int
	inlining map[string]bool
	params   []string
	paramTs  []string
	retCount int
	labels   map[ast.Stmt]string
	shared   map[types.Object]bool
	inTask   int
	noFunctional bool
	autoInv  []*Clause
	loopHid  types.Object
	loopBind func(*State)
	applyHook func(*State)
	wb        []wbEntry
	callDepth int
	curPos   token.Pos
	decl     *ast.FuncDecl
	fnobj    *types.Func
	replay   *ReplayInfo
	logKinds []string
	returned []Value
	nowriteOn bool
	ghostVars map[string]Value
	ownRefs  map[string]bool
}

type closureRec struct {
	lit   *ast.FuncLit
	frame *Frame
}

func (v *FnV) fr() *Frame        { return v.frames[len(v.frames)-1] }
func (v *FnV) info() *types.Info { return v.fr().pkg.TypesInfo }

func (v *FnV) pos(n ast.Node) string {
	if n == nil {
		return ""
	}
	p := v.c.fset.Position(n.Pos())
	f := p.Filename
	if k := strings.Index(f, "/pkg/"); k >= 0 {
		f = f[k+1:]
	}
	return fmt.Sprintf("%s:%d", f, p.Line)
}

func (v *FnV) abstract(n ast.Node, what string) {
	v.c.abstractions[fmt.Sprintf("%s: %s (%s)", v.name, what, v.pos(n))] = true
}

// typeOf returns the (substituted) type of an expression.
func (v *FnV) typeOf(e ast.Expr) types.Type {
	t := v.info().TypeOf(e)
	return v.substT(t)
}

func (v *FnV) substT(t types.Type) types.Type {
	if t == nil {
		return nil
	}
	sub := v.fr().subst
	if len(sub) == 0 {
		return t
	}
	return substType(t, sub)
}

func substType(t types.Type, sub map[*types.TypeParam]types.Type) types.Type {
	switch u := types.Unalias(t).(type) {
	case *types.TypeParam:
		if r, ok := sub[u]; ok {
			return r
		}
	case *types.Pointer:
		return types.NewPointer(substType(u.Elem(), sub))
	case *types.Slice:
		return types.NewSlice(substType(u.Elem(), sub))
	case *types.Array:
		return types.NewArray(substType(u.Elem(), sub), u.Len())
	case *types.Map:
		return types.NewMap(substType(u.Key(), sub), substType(u.Elem(), sub))
	case *types.Named:
		if ta := u.TypeArgs(); ta != nil && ta.Len() > 0 {
			args := make([]types.Type, ta.Len())
			changed := false
			for i := range args {
				args[i] = substType(ta.At(i), sub)
				if args[i] != ta.At(i) {
					changed = true
				}
			}
			if changed {
				if inst, err := types.Instantiate(nil, u.Origin(), args, false); err == nil {
					return inst
				}
			}
		}
	}
	return t
}

// ---------- site ordinals ----------

func siteKind(n ast.Node, info *types.Info) string {
	switch x := n.(type) {
	case *ast.IndexExpr:
		if tv, ok := info.Types[x.X]; ok && tv.IsType() {
			return ""
		}
		if _, ok := info.Instances[identOf(x.X)]; ok {
			return ""
		}
		return "index"
	case *ast.SliceExpr:
		return "slice"
	case *ast.TypeAssertExpr:
		if x.Type == nil {
			return ""
		}
		return "type-assert"
	case *ast.ForStmt, *ast.RangeStmt:
		return "loop"
	case *ast.ReturnStmt:
		return "ret"
	case *ast.BinaryExpr:
		switch x.Op {
		case token.QUO, token.REM:
			return "div"
		case token.EQL, token.NEQ:
			return "cmp"
		case token.SHL, token.SHR:
			return "shift"
		}
	case *ast.AssignStmt:
		switch x.Tok {
		case token.QUO_ASSIGN, token.REM_ASSIGN:
			return "div"
		}
	case *ast.CallExpr:
		return "call:" + calleeShortName(x)
	case *ast.StarExpr:
		return "deref"
	case *ast.GoStmt:
		return "go"
	}
	return ""
}

func identOf(e ast.Expr) *ast.Ident {
	switch x := e.(type) {
	case *ast.Ident:
		return x
	case *ast.SelectorExpr:
		return x.Sel
	}
	return nil
}

func calleeShortName(c *ast.CallExpr) string {
	switch f := c.Fun.(type) {
	case *ast.Ident:
		return f.Name
	case *ast.SelectorExpr:
		return f.Sel.Name
	case *ast.IndexExpr:
		if id := identOf(f.X); id != nil {
			return id.Name
		}
	case *ast.ParenExpr:
		return "paren"
	case *ast.FuncLit:
		return "funclit"
	}
	return "expr"
}

func computeOrdinals(body ast.Node, info *types.Info) map[ast.Node]int {
	ord := map[ast.Node]int{}
	cnt := map[string]int{}
	ast.Inspect(body, func(n ast.Node) bool {
		if n == nil {
			return false
		}
		if k := siteKind(n, info); k != "" {
			cnt[k]++
			ord[n] = cnt[k]
		}
		return true
	})
	return ord
}

// ---------- obligations ----------

func (v *FnV) script(st *State, goal string) string {
	var b strings.Builder
	b.WriteString(preludeBase)
	for _, d := range v.c.globDecl {
		b.WriteString(d)
		b.WriteByte('\n')
	}
	for _, f := range v.c.implFacts(v.c.ifaces) {
		b.WriteString(f)
		b.WriteByte('\n')
	}
	for _, it := range st.items {
		if it.Decl != "" {
			b.WriteString(it.Decl)
		} else {
			b.WriteString("(assert " + it.Assume + ")")
		}
		b.WriteByte('\n')
	}
	b.WriteString("(assert (not " + goal + "))\n(check-sat)\n")
	return b.String()
}

// oblige records the obligation "cond holds here".
func (v *FnV) oblige(st *State, kind string, node ast.Node, ord int, cond string, desc string) {
	if st == nil || st.dead {
		return
	}
	name := fmt.Sprintf("%s#%s%s", v.name, v.fr().prefix, kind)
	if ord > 0 {
		name += fmt.Sprintf("@%d", ord)
	}
	ob := &Oblig{Name: name, Fn: v.name, Kind: kind, Pos: v.pos(node), Desc: desc, Params: v.params, ParamTs: v.paramTs}
	if v.replay != nil {
		ri := *v.replay
		ob.Replay = &ri
	}
	if cond == "true" {
		ob.Quick = "unsat"
		ob.Result = "unsat"
		ob.Solver = "trivial"
	} else {
		ob.SMT = v.script(st, cond)
	}
	v.obligs = append(v.obligs, ob)
}

func (v *FnV) safety(st *State, kind string, node ast.Node, cond string, desc string) {
	if !v.fc.Safety {
		return
	}
	if st != nil && st.quiet {
		return // inside a quantifier body (a comparison evaluated symbolically)
	}
	for _, sk := range v.fc.Extra["skip"] {
		if sk == kind {
			// the contract declares this kind of run-time check out of scope (listed as an assumption)
			v.c.trusted[v.name+": "+kind+" checks are assumed to pass (skip "+kind+")"] = true
			st.assume(cond)
			return
		}
	}
	ord := v.fr().ord[node]
	v.oblige(st, kind, node, ord, cond, desc)
	// after a run-time check passes, execution continues with the condition true
	st.assume(cond)
}

func (v *FnV) canary(st *State, node ast.Node, ord int) {
	if st == nil || st.dead {
		return
	}
	name := fmt.Sprintf("%s#canary@%d", v.name, ord)
	ob := &Oblig{Name: name, Fn: v.name, Kind: "canary", Pos: v.pos(node), Canary: true, Desc: "reachability canary (must not be provable)"}
	ob.SMT = v.script(st, "false")
	v.obligs = append(v.obligs, ob)
}

// ---------- verifying one function ----------

func recvTypeName(t types.Type) string {
	if p, ok := t.(*types.Pointer); ok {
		t = p.Elem()
	}
	if n, ok := types.Unalias(t).(*types.Named); ok {
		return n.Obj().Name()
	}
	return typeKey(t)
}

func funcFullName(fn *types.Func) string {
	fn = fn.Origin()
	sig := fn.Type().(*types.Signature)
	pkg := ""
	if fn.Pkg() != nil {
		pkg = fn.Pkg().Path()
	}
	if sig.Recv() != nil {
		return pkg + "." + recvTypeName(sig.Recv().Type()) + "." + fn.Name()
	}
	return pkg + "." + fn.Name()
}

func (e *Engine) verifyFunc(fc *FuncContract) []*Oblig {
	full := fc.FullName()
	e.ctx = e.freshCtx()
	v := &FnV{e: e, c: e.ctx, fc: fc, name: shortName(full), boxed: map[types.Object]bool{},
		closures: map[string]*closureRec{}, inlining: map[string]bool{}, labels: map[ast.Stmt]string{}}
	decl, pkg := e.decls[full], e.declPkg[full]
	bind := &Oblig{Name: v.name + "#contract-binds", Fn: v.name, Kind: "contract-binds", Desc: "contract refers to an existing function with a body", Pos: fc.Where}
	if decl == nil || decl.Body == nil {
		bind.Quick, bind.Result, bind.Solver, bind.Output = "sat", "sat", "binder", "function "+full+" not found (renamed, removed or no body)"
		return []*Oblig{bind}
	}
	bind.Quick, bind.Result, bind.Solver = "unsat", "unsat", "binder"
	v.obligs = append(v.obligs, bind)
	if fc.Trusted {
		e.ctx.trusted[full+" (contract assumed, body not checked)"] = true
		return v.obligs
	}
	v.decl = decl
	fnobj, _ := pkg.TypesInfo.Defs[decl.Name].(*types.Func)
	if lit := e.litOf[full]; lit != nil {
		fnobj = types.NewFunc(lit.Pos(), pkg.Types, decl.Name.Name, pkg.TypesInfo.TypeOf(lit).(*types.Signature))
	}
	v.fnobj = fnobj
	sig := fnobj.Type().(*types.Signature)
	e.ctx.bv = fc.BV
	defer func() { e.ctx.bv = false }()

	st := &State{c: e.ctx, env: map[types.Object]Value{}, heaps: map[string]string{}, hsort: map[string]string{}}
	st.declare("alloc!0", "Int")
	st.assume("(<= 1 alloc!0)")
	st.alloc = "alloc!0"

	fr := &Frame{pkg: pkg, body: decl.Body, ftype: decl.Type, sig: sig, name: full}
	fr.ord = computeOrdinals(decl.Body, pkg.TypesInfo)
	v.frames = []*Frame{fr}
	v.scanBoxed(decl.Body, pkg.TypesInfo)

	scope := map[string]Value{}
	bindParam := func(p *types.Var) {
		if p == nil || p.Name() == "" || p.Name() == "_" {
			return
		}
		val := st.freshVal(p.Name(), p.Type())
		v.params = append(v.params, p.Name()+"="+val.S)
		v.paramTs = append(v.paramTs, p.Type().String())
		scope[p.Name()] = val
		v.setVar(st, p, val)
	}
	if sig.Recv() != nil {
		bindParam(sig.Recv())
		if rv, ok := scope[sig.Recv().Name()]; ok {
			scope["self"] = rv
		}
	}
	for i := 0; i < sig.Params().Len(); i++ {
		bindParam(sig.Params().At(i))
	}
	// results: named or synthetic
	for i := 0; i < sig.Results().Len(); i++ {
		r := sig.Results().At(i)
		var obj types.Object = r
		if r.Name() == "" || r.Name() == "_" {
			obj = types.NewVar(token.NoPos, pkg.Types, fmt.Sprintf("res!%d", i), r.Type())
		} else {
			v.setVar(st, r, Value{T: r.Type(), S: e.ctx.zeroOf(r.Type())})
		}
		fr.results = append(fr.results, obj)
	}
	// replay template
	{
		ri := &ReplayInfo{PkgName: pkg.Name, PkgPath: pkg.PkgPath, Func: decl.Name.Name, Method: sig.Recv() != nil, TagTypes: map[int]types.Type{}}
		if len(pkg.GoFiles) > 0 {
			if rel, err := filepath.Rel(e.repo, filepath.Dir(pkg.GoFiles[0])); err == nil {
				ri.PkgDir = rel
			}
		}
		for i := 0; i < sig.Params().Len(); i++ {
			p := sig.Params().At(i)
			if p.Name() == "" || p.Name() == "_" || sig.Variadic() {
				ri.Method = true // not replayable
				continue
			}
			ri.Params = append(ri.Params, p.Name())
			ri.Terms = append(ri.Terms, scope[p.Name()].S)
			ri.Types = append(ri.Types, p.Type())
		}
		for i := 0; i < sig.Results().Len(); i++ {
			r := sig.Results().At(i)
			switch {
			case i < len(fc.Results):
				ri.Results = append(ri.Results, fc.Results[i])
			case r.Name() != "" && r.Name() != "_":
				ri.Results = append(ri.Results, r.Name())
			case sig.Results().Len() == 1:
				ri.Results = append(ri.Results, "result")
			default:
				ri.Results = append(ri.Results, fmt.Sprintf("res%d", i))
			}
		}
		v.replay = ri
	}
	if lit := e.litOf[full]; lit != nil {
		// a function literal verified on its own: the variables it captures are unknown but FIXED at
		// entry (so that old(...) and the body talk about the same values)
		seen := map[types.Object]bool{}
		ast.Inspect(lit.Body, func(n ast.Node) bool {
			id, ok := n.(*ast.Ident)
			if !ok {
				return true
			}
			obj, ok := pkg.TypesInfo.Uses[id].(*types.Var)
			if !ok || obj.IsField() || seen[obj] || obj.Pkg() == nil || obj.Parent() == obj.Pkg().Scope() {
				return true
			}
			if obj.Pos() >= lit.Pos() && obj.Pos() <= lit.End() {
				return true
			}
			seen[obj] = true
			v.setVar(st, obj, st.freshVal(obj.Name(), obj.Type()))
			return true
		})
	}
	v.initLog(st)
	v.checkNoEscape()
	v.checkInterruptible()
	v.nowriteOn = v.isNoWrite()
	v.entry = st.fork()
	// preconditions
	v.bindGhosts(st, fc, scope)
	sc := &Scope{v: v, vars: scope, pkg: pkg, pos: decl.Body.Lbrace + 1}
	for _, cl := range fc.Requires {
		val, err := v.spec(st, cl.Expr, sc)
		if err != nil {
			v.specError(cl, err)
			continue
		}
		st.assume(val.S)
	}
	for _, cl := range v.maintainsClauses(fc) {
		// a literal's closure invariant is assumed at its entry (and checked at every return)
		if val, err := v.spec(st, cl.Expr, sc); err == nil {
			st.assume(val.S)
		} else {
			v.specError(cl, err)
		}
	}
	v.applyAt(st, 0, sc)
	for _, names := range fc.Extra["uses"] {
		for _, name := range strings.Fields(names) {
			lm := e.findLemma(pkg.PkgPath, name)
			if lm == nil {
				v.specError(&Clause{Text: "uses " + name, Line: fc.Where}, fmt.Errorf("unknown lemma %s", name))
				continue
			}
			if lm.Axiom {
				e.ctx.trusted["axiom "+shortName(lm.Pkg)+"."+lm.Name+" (assumed, not proved)"] = true
			}
			ax, err := v.lemmaAxiom(st, lm)
			if err != nil {
				v.specError(&Clause{Text: "uses " + name, Line: fc.Where}, err)
				continue
			}
			st.assume(ax)
		}
	}
	v.entry = st.fork()

	fl := v.block(st, decl.Body.List)
	var rets []Exit
	for _, ex := range fl.exits {
		if ex.kind == exReturn {
			rets = append(rets, ex)
		}
	}
	if fl.normal != nil && !fl.normal.dead {
		// fell off the end
		ex := Exit{kind: exReturn, st: fl.normal, node: decl.Body}
		for _, r := range fr.results {
			ex.results = append(ex.results, v.getVar(fl.normal, r))
		}
		v.runDefers(&ex, fr)
		rets = append(rets, ex)
	}
	for i, ex := range rets {
		ord := fr.ord[ex.node]
		if ord == 0 {
			ord = 1000 + i
		}
		v.canary(ex.st, ex.node, ord)
		v.checkPosts(ex, sc, ord)
		v.checkFrame(ex, sc, ord)
	}
	tagTypes := map[int]types.Type{}
	for _, tt := range e.ctx.tagTypes {
		tagTypes[e.ctx.tagOf(tt)] = tt
	}
	for _, ob := range v.obligs {
		if ob.Replay != nil {
			ob.Replay.TagTypes = tagTypes
		}
	}
	return v.obligs
}

func shortName(full string) string {
	// src.elv.sh/pkg/eval/vals.adjustAndCheckIndex -> vals.adjustAndCheckIndex
	if k := strings.LastIndex(full, "/"); k >= 0 {
		return full[k+1:]
	}
	return full
}

func (v *FnV) specError(cl *Clause, err error) {
	ob := &Oblig{Name: v.name + "#contract-wellformed", Fn: v.name, Kind: "contract-wellformed", Pos: cl.Line,
		Desc: cl.Text, Quick: "error", Result: "error", Solver: "spec", Output: err.Error()}
	v.obligs = append(v.obligs, ob)
}

func (v *FnV) checkPosts(ex Exit, sc *Scope, ord int) {
	fr := v.frames[0]
	vars := map[string]Value{}
	for k, val := range sc.vars {
		vars[k] = val
	}
	names := v.fc.Results
	for i, r := range fr.results {
		if i < len(ex.results) {
			if i < len(names) {
				vars[names[i]] = ex.results[i]
			}
			if !strings.HasPrefix(r.Name(), "res!") {
				vars[r.Name()] = ex.results[i]
			}
			if len(fr.results) == 1 {
				vars["result"] = ex.results[i]
			}
		}
	}
	psc := &Scope{v: v, vars: vars, pkg: sc.pkg, pos: sc.pos, old: v.entry, oldVars: sc.vars}
	for k, cl := range v.fc.Ensures {
		if cl.Assumed {
			v.c.trusted["assumed contract clause of "+v.name+": "+cl.Text] = true
			continue
		}
		st := ex.st.fork()
		val, err := v.spec(st, cl.Expr, psc)
		if err != nil {
			v.specError(cl, err)
			continue
		}
		label := fmt.Sprintf("post%d", k+1)
		if cl.Label != "" {
			label = "post:" + cl.Label
		}
		name := fmt.Sprintf("%s#%s", v.name, label)
		ob := &Oblig{Name: name, Fn: v.name, Kind: "post", Pos: v.pos(ex.node), Desc: fmt.Sprintf("ensures %s (at return #%d)", cl.Text, ord),
			Params: v.params, ParamTs: v.paramTs}
		if v.replay != nil {
			ri := *v.replay
			ri.Clause = cl.Expr
			ob.Replay = &ri
		}
		ob.SMT = v.script(st, val.S)
		v.obligs = append(v.obligs, ob)
		v.premiseCover(ex.st, cl, psc, name)
	}
	v.checkExits(ex, psc, ord)
}

// modifiedParams parses "modifies *a *b" lines.
func modifiedParams(lines []string) []string {
	var out []string
	for _, l := range lines {
		for _, f := range strings.Fields(l) {
			out = append(out, strings.TrimPrefix(f, "*"))
		}
	}
	return out
}

// checkFrame generates, for a function whose contract has a modifies clause, one
// obligation per heap the body touched: every cell that existed at entry and is
// not listed keeps its value.
func (v *FnV) checkFrame(ex Exit, sc *Scope, ord int) {
	mods := v.fc.Extra["modifies"]
	if len(mods) == 0 {
		return
	}
	var names []string
	for name := range ex.st.hsort {
		names = append(names, name)
	}
	sort.Strings(names)
	for _, name := range names {
		st := ex.st.fork()
		en := v.entry.fork()
		exitT := st.heap(name, st.hsort[name])
		entryT := en.heap(name, st.hsort[name])
		if exitT == entryT {
			continue
		}
		r := v.c.freshName("frame_r")
		st.declare(r, "Int")
		conds := []string{sLe("0", r), sLe(r, v.entry.alloc)}
		for _, p := range modifiedParams(mods) {
			if strings.HasSuffix(p, "[]") {
				if pv, ok := sc.vars[strings.TrimSuffix(p, "[]")]; ok {
					if slt, ok := pv.T.Underlying().(*types.Slice); ok && elemHeapName(v.substT(slt.Elem())) == name {
						conds = append(conds, sNot(sEq(r, sx("sref", pv.S))))
					}
				}
				continue
			}
			pv, ok := sc.vars[p]
			if !ok {
				continue
			}
			if pt, ok := pv.T.Underlying().(*types.Pointer); ok && heapName(v.substT(pt.Elem())) == name {
				conds = append(conds, sNot(sEq(r, pv.S)))
			}
		}
		goal := sImp(sAnd(conds...), sEq(sSelect(exitT, r), sSelect(entryT, r)))
		ob := &Oblig{Name: fmt.Sprintf("%s#frame:%s", v.name, name), Fn: v.name, Kind: "frame", Pos: v.pos(ex.node),
			Desc: fmt.Sprintf("modifies %s: no other cell of heap %s changes (at return #%d)", strings.Join(mods, " "), name, ord),
			Params: v.params, ParamTs: v.paramTs}
		ob.SMT = v.script(st, goal)
		v.obligs = append(v.obligs, ob)
	}
}

// scanBoxed finds local variables whose address is taken.
func (v *FnV) scanBoxed(body ast.Node, info *types.Info) {
	ast.Inspect(body, func(n ast.Node) bool {
		switch x := n.(type) {
		case *ast.UnaryExpr:
			if x.Op == token.AND {
				if id := rootIdent(x.X); id != nil && !throughPointer(x.X, info) {
					if obj, ok := info.Uses[id].(*types.Var); ok && !obj.IsField() && obj.Parent() != obj.Pkg().Scope() {
						if _, isIdx := x.X.(*ast.IndexExpr); !isIdx {
							v.boxed[obj] = true
						}
					}
				}
			}
		case *ast.SliceExpr:
			// slicing an array variable takes its address
			if id, ok := unparen(x.X).(*ast.Ident); ok {
				if obj, ok := info.Uses[id].(*types.Var); ok && !obj.IsField() && obj.Pkg() != nil && obj.Parent() != obj.Pkg().Scope() {
					if _, isArr := obj.Type().Underlying().(*types.Array); isArr {
						v.boxed[obj] = true
					}
				}
			}
		case *ast.CallExpr:
			if sel, ok := x.Fun.(*ast.SelectorExpr); ok {
				if s, ok := info.Selections[sel]; ok && s.Kind() == types.MethodVal {
					fn := s.Obj().(*types.Func)
					sig := fn.Type().(*types.Signature)
					if sig.Recv() != nil {
						if _, ptr := sig.Recv().Type().(*types.Pointer); ptr {
							if _, isPtr := s.Recv().Underlying().(*types.Pointer); !isPtr && !throughPointer(sel.X, info) {
								if id := rootIdent(sel.X); id != nil {
									if obj, ok := info.Uses[id].(*types.Var); ok && !obj.IsField() && obj.Pkg() != nil && obj.Parent() != obj.Pkg().Scope() {
										v.boxed[obj] = true
									}
								}
							}
						}
					}
				}
			}
		}
		return true
	})
}

// throughPointer reports whether the selector chain e (x.f.g) dereferences a
// pointer on the way: &p.f with p a pointer is the address of a field of *p, not
// of the variable p.
func throughPointer(e ast.Expr, info *types.Info) bool {
	for {
		switch x := e.(type) {
		case *ast.ParenExpr:
			e = x.X
		case *ast.SelectorExpr:
			if t := info.TypeOf(x.X); t != nil {
				if _, ok := t.Underlying().(*types.Pointer); ok {
					return true
				}
			}
			e = x.X
		default:
			return false
		}
	}
}

func rootIdent(e ast.Expr) *ast.Ident {
	for {
		switch x := e.(type) {
		case *ast.Ident:
			return x
		case *ast.ParenExpr:
			e = x.X
		case *ast.SelectorExpr:
			e = x.X
		case *ast.IndexExpr:
			return nil
		default:
			return nil
		}
	}
}

// ---------- variables ----------

func (v *FnV) setVar(st *State, obj types.Object, val Value) {
	if v.boxed[obj] {
		cell, ok := st.env[obj]
		if !ok {
			ref := v.alloc(st, obj.Name())
			cell = Value{T: types.NewPointer(obj.Type()), S: ref}
			st.env[obj] = cell
		}
		v.store(st, v.substT(obj.Type()), cell.S, val.S)
		return
	}
	st.env[obj] = val
}

func (v *FnV) getVar(st *State, obj types.Object) Value {
	if v.boxed[obj] {
		cell, ok := st.env[obj]
		if !ok {
			v.setVar(st, obj, Value{T: obj.Type(), S: v.c.zeroOf(v.substT(obj.Type()))})
			cell = st.env[obj]
		}
		t := v.substT(obj.Type())
		return Value{T: t, S: v.load(st, t, cell.S)}
	}
	if val, ok := st.env[obj]; ok {
		return val
	}
	if vr, ok := obj.(*types.Var); ok && vr.Pkg() != nil && vr.Parent() == vr.Pkg().Scope() {
		return v.global(st, vr)
	}
	// unknown variable (captured from an outer scope we did not execute): havoc
	val := st.freshVal(obj.Name(), v.substT(obj.Type()))
	st.env[obj] = val
	return val
}

func (v *FnV) global(st *State, vr *types.Var) Value {
	name := "G_" + mangle(vr.Pkg().Path()+"."+vr.Name())
	t := vr.Type()
	if v.e.constGlobal(vr) {
		id := v.e.globalID(vr)
		if isInterface(t) {
			return Value{T: t, S: fmt.Sprintf("(mkval %d %d fpzero emptystr false)", v.c.tagOf(sentinelType)+0, id)}
		}
		if _, ok := t.Underlying().(*types.Pointer); ok {
			// a distinct non-nil object allocated at init time
			cn := "gptr!" + mangle(vr.Pkg().Path()+"."+vr.Name())
			v.c.glob("gptr:"+cn, fmt.Sprintf("(declare-const %s Int)", cn), fmt.Sprintf("(assert (< 0 %s))", cn))
			st.assume(sLe(cn, "alloc!0"))
			return Value{T: t, S: cn}
		}
	}
	if tv, ok := v.e.constInit[vr]; ok && !v.e.assigned[vr] {
		// initialised with a constant and never assigned in the loaded (non-test) sources
		if val, ok := v.c.constVal(tv.Value, t); ok {
			v.c.trusted["package variable "+vr.Pkg().Name()+"."+vr.Name()+" keeps its constant initial value (it is never assigned outside tests)"] = true
			return val
		}
	}
	if v.e.nonNilG[vr] && !v.e.assigned[vr] {
		// initialised once with &T{...} and never reassigned: a fixed non-nil object
		cn := "gobj!" + mangle(vr.Pkg().Path()+"."+vr.Name())
		v.c.glob("gobj:"+cn, fmt.Sprintf("(declare-const %s Int)", cn), fmt.Sprintf("(assert (< 0 %s))", cn))
		st.assume(sLe(cn, "alloc!0"))
		if isInterface(t) {
			if pt := v.e.globalInitType(vr); pt != nil {
				return Value{T: t, S: v.c.toIface(Value{T: pt, S: cn})}
			}
		} else if _, ok := t.Underlying().(*types.Pointer); ok {
			return Value{T: t, S: cn}
		}
	}
	h := st.heap(name, v.c.sortOf(t))
	st.assume(v.c.rangeOf(t, h, st.alloc))
	return Value{T: t, S: h}
}

var sentinelType = types.NewNamed(types.NewTypeName(token.NoPos, nil, "sentinel!error", nil), types.NewPointer(types.Typ[types.Int]), nil)

func (v *FnV) alloc(st *State, hint string) string {
	r := v.c.freshName("ref_" + hint)
	st.declare(r, "Int")
	st.assume(sGt(r, st.alloc))
	st.alloc = r
	if v.ownRefs == nil {
		v.ownRefs = map[string]bool{}
	}
	v.ownRefs[r] = true
	return r
}

func heapName(t types.Type) string {
	// a pointer to an array [N]T refers to the same kind of storage as the backing array
	// of a []T (ref -> Array Int T), so that p[:] can be modelled as a slice sharing p's cells
	if at, ok := types.Unalias(t).Underlying().(*types.Array); ok {
		return elemHeapName(at.Elem())
	}
	return "H_" + mangle(typeKey(t))
}
func elemHeapName(t types.Type) string { return "E_" + mangle(typeKey(t)) }

func (v *FnV) load(st *State, t types.Type, ref string) string {
	h := st.heap(heapName(t), "(Array Int "+v.c.sortOf(t)+")")
	val := sSelect(h, ref)
	st.assume(v.c.rangeOf(t, val, st.alloc))
	return val
}

func (v *FnV) store(st *State, t types.Type, ref string, val string) {
	name := heapName(t)
	h := st.heap(name, "(Array Int "+v.c.sortOf(t)+")")
	v.writeCheck(st, ref, "store through a pointer")
	st.setHeap(name, sStore(h, ref, val))
}

func (v *FnV) elemHeap(st *State, elem types.Type) (name, term string) {
	name = elemHeapName(elem)
	term = st.heap(name, "(Array Int (Array Int "+v.c.sortOf(elem)+"))")
	return
}

func (v *FnV) sliceLoad(st *State, elem types.Type, sl string, idx string) string {
	_, h := v.elemHeap(st, elem)
	val := sSelect(sSelect(h, sx("sref", sl)), sAdd(sx("sloff", sl), idx))
	st.assume(v.c.rangeOf(elem, val, st.alloc))
	return val
}

func (v *FnV) sliceStore(st *State, elem types.Type, sl string, idx string, val string) {
	name, h := v.elemHeap(st, elem)
	ref := sx("sref", sl)
	v.writeCheck(st, ref, "slice element store")
	st.setHeap(name, sStore(h, ref, sStore(sSelect(h, ref), sAdd(sx("sloff", sl), idx), val)))
}

// ---------- statements ----------

func (v *FnV) block(st *State, list []ast.Stmt) Flow {
	fl := Flow{normal: st}
	for _, s := range list {
		if fl.normal == nil || fl.normal.dead {
			break
		}
		f := v.stmt(fl.normal, s)
		fl.normal = f.normal
		fl.exits = append(fl.exits, f.exits...)
	}
	return fl
}

func (v *FnV) stmt(st *State, s ast.Stmt) Flow {
	v.curPos = s.Pos()
	switch x := s.(type) {
	case *ast.EmptyStmt:
		return Flow{normal: st}
	case *ast.BlockStmt:
		return v.block(st, x.List)
	case *ast.ExprStmt:
		if call, ok := x.X.(*ast.CallExpr); ok {
			v.call(st, call)
		} else {
			v.expr(st, x.X)
		}
		if st.dead {
			return Flow{}
		}
		return Flow{normal: st}
	case *ast.DeclStmt:
		gd, ok := x.Decl.(*ast.GenDecl)
		if ok && gd.Tok == token.VAR {
			for _, sp := range gd.Specs {
				vs := sp.(*ast.ValueSpec)
				if len(vs.Values) == 1 && len(vs.Names) > 1 {
					vals := v.multi(st, vs.Values[0], len(vs.Names))
					for i, n := range vs.Names {
						v.define(st, n, vals[i])
					}
					continue
				}
				for i, n := range vs.Names {
					obj := v.info().Defs[n]
					if obj == nil {
						continue
					}
					t := v.substT(obj.Type())
					if i < len(vs.Values) {
						val := v.convert(st, v.expr(st, vs.Values[i]), t)
						v.setVar(st, obj, val)
					} else {
						v.setVar(st, obj, Value{T: t, S: v.c.zeroOf(t)})
					}
				}
			}
		}
		return Flow{normal: st}
	case *ast.AssignStmt:
		v.assign(st, x)
		if st.dead {
			return Flow{}
		}
		return Flow{normal: st}
	case *ast.IncDecStmt:
		cur := v.expr(st, x.X)
		one := Value{T: cur.T, S: v.c.intLit(cur.T, 1)}
		op := token.ADD
		if x.Tok == token.DEC {
			op = token.SUB
		}
		res, _ := v.c.arith(op, cur, one, cur.T, false)
		v.assignTo(st, x.X, Value{T: cur.T, S: res})
		return Flow{normal: st}
	case *ast.ReturnStmt:
		return v.ret(st, x)
	case *ast.IfStmt:
		return v.ifStmt(st, x)
	case *ast.ForStmt:
		return v.forStmt(st, x, "")
	case *ast.RangeStmt:
		return v.rangeStmt(st, x, "")
	case *ast.SwitchStmt:
		return v.switchStmt(st, x, "")
	case *ast.TypeSwitchStmt:
		return v.typeSwitch(st, x, "")
	case *ast.LabeledStmt:
		switch inner := x.Stmt.(type) {
		case *ast.ForStmt:
			return v.forStmt(st, inner, x.Label.Name)
		case *ast.RangeStmt:
			return v.rangeStmt(st, inner, x.Label.Name)
		case *ast.SwitchStmt:
			return v.switchStmt(st, inner, x.Label.Name)
		case *ast.TypeSwitchStmt:
			return v.typeSwitch(st, inner, x.Label.Name)
		}
		return v.stmt(st, x.Stmt)
	case *ast.BranchStmt:
		label := ""
		if x.Label != nil {
			label = x.Label.Name
		}
		switch x.Tok {
		case token.BREAK:
			return Flow{exits: []Exit{{kind: exBreak, label: label, st: st, node: x}}}
		case token.CONTINUE:
			return Flow{exits: []Exit{{kind: exContinue, label: label, st: st, node: x}}}
		case token.FALLTHROUGH:
			return Flow{exits: []Exit{{kind: exFallthrough, st: st, node: x}}}
		}
		v.abstract(x, "goto")
		return Flow{}
	case *ast.DeferStmt:
		d := deferRec{frame: v.fr()}
		if lit, ok := x.Call.Fun.(*ast.FuncLit); ok && len(x.Call.Args) == 0 {
			d.lit = lit
		} else {
			d.call = x.Call
			for _, a := range x.Call.Args {
				d.args = append(d.args, v.expr(st, a))
			}
		}
		st.defers = append(append([]deferRec(nil), st.defers...), d)
		return Flow{normal: st}
	case *ast.GoStmt:
		v.goStmt(st, x)
		return Flow{normal: st}
	case *ast.SendStmt:
		v.expr(st, x.Value)
		v.abstract(x, "channel send (yield point)")
		v.yield(st)
		return Flow{normal: st}
	case *ast.SelectStmt:
		return v.selectStmt(st, x)
	}
	v.abstract(s, fmt.Sprintf("unsupported statement %T", s))
	st.havocAllHeaps()
	return Flow{normal: st}
}

func (v *FnV) define(st *State, n *ast.Ident, val Value) {
	if n.Name == "_" {
		return
	}
	obj := v.info().Defs[n]
	if obj == nil {
		obj = v.info().Uses[n]
	}
	if obj == nil {
		return
	}
	v.setVar(st, obj, v.convert(st, val, v.substT(obj.Type())))
}

// multi evaluates an expression producing n values (call, comma-ok forms).
func (v *FnV) multi(st *State, e ast.Expr, n int) []Value {
	e = unparen(e)
	switch x := e.(type) {
	case *ast.CallExpr:
		vals := v.call(st, x)
		for len(vals) < n {
			vals = append(vals, st.freshVal("missing", tInt))
		}
		return vals
	case *ast.TypeAssertExpr:
		if n == 2 {
			iv := v.expr(st, x.X)
			t := v.typeOf(x.Type)
			ok := v.c.hasType(iv.S, t)
			okn := st.define("ok", "Bool", ok)
			pv := v.c.fromIface(iv.S, t)
			st.assume(sImp(okn, v.c.rangeOf(t, pv, st.alloc)))
			val := sIte(okn, pv, v.c.zeroOf(t))
			return []Value{{T: t, S: val}, {T: tBool, S: okn}}
		}
	case *ast.IndexExpr:
		if n == 2 {
			if mt, ok := v.typeOf(x.X).Underlying().(*types.Map); ok {
				m := v.expr(st, x.X)
				k := v.expr(st, x.Index)
				val, present := v.mapLookup(st, mt, m, v.convert(st, k, mt.Key()))
				return []Value{val, {T: tBool, S: present}}
			}
		}
	case *ast.UnaryExpr:
		if x.Op == token.ARROW && n == 2 {
			v.abstract(x, "channel receive")
			v.yield(st)
			t := v.typeOf(x)
			if tup, ok := t.(*types.Tuple); ok {
				t = tup.At(0).Type()
			}
			return []Value{st.freshVal("recv", t), st.freshVal("ok", tBool)}
		}
	}
	val := v.expr(st, e)
	out := []Value{val}
	for len(out) < n {
		out = append(out, st.freshVal("missing", tInt))
	}
	return out
}

func unparen(e ast.Expr) ast.Expr {
	for {
		p, ok := e.(*ast.ParenExpr)
		if !ok {
			return e
		}
		e = p.X
	}
}

func (v *FnV) assign(st *State, x *ast.AssignStmt) {
	switch x.Tok {
	case token.ASSIGN, token.DEFINE:
		var vals []Value
		if len(x.Rhs) == 1 && len(x.Lhs) > 1 {
			vals = v.multi(st, x.Rhs[0], len(x.Lhs))
		} else {
			for i, r := range x.Rhs {
				val := v.expr(st, r)
				// convert to the static type of the lhs when known
				if i < len(x.Lhs) {
					if lt := v.lhsType(x.Lhs[i]); lt != nil {
						val = v.convert(st, val, lt)
					}
				}
				vals = append(vals, val)
			}
		}
		for i, l := range x.Lhs {
			if i >= len(vals) {
				break
			}
			if id, ok := l.(*ast.Ident); ok {
				if id.Name == "_" {
					continue
				}
				if x.Tok == token.DEFINE {
					if obj := v.info().Defs[id]; obj != nil {
						v.setVar(st, obj, v.convert(st, vals[i], v.substT(obj.Type())))
						continue
					}
				}
			}
			v.assignTo(st, l, vals[i])
		}
	default:
		// op-assign
		cur := v.expr(st, x.Lhs[0])
		rhs := v.expr(st, x.Rhs[0])
		op := assignOp(x.Tok)
		res := v.binop(st, op, cur, rhs, cur.T, x)
		v.assignTo(st, x.Lhs[0], res)
	}
}

func (v *FnV) lhsType(l ast.Expr) types.Type {
	if id, ok := l.(*ast.Ident); ok {
		if id.Name == "_" {
			return nil
		}
		if obj := v.info().Defs[id]; obj != nil {
			return v.substT(obj.Type())
		}
		if obj := v.info().Uses[id]; obj != nil {
			return v.substT(obj.Type())
		}
		return nil
	}
	return v.typeOf(l)
}

func assignOp(t token.Token) token.Token {
	switch t {
	case token.ADD_ASSIGN:
		return token.ADD
	case token.SUB_ASSIGN:
		return token.SUB
	case token.MUL_ASSIGN:
		return token.MUL
	case token.QUO_ASSIGN:
		return token.QUO
	case token.REM_ASSIGN:
		return token.REM
	case token.AND_ASSIGN:
		return token.AND
	case token.OR_ASSIGN:
		return token.OR
	case token.XOR_ASSIGN:
		return token.XOR
	case token.SHL_ASSIGN:
		return token.SHL
	case token.SHR_ASSIGN:
		return token.SHR
	case token.AND_NOT_ASSIGN:
		return token.AND_NOT
	}
	return token.ILLEGAL
}

// assignTo stores val into the location denoted by lhs.
func (v *FnV) assignTo(st *State, lhs ast.Expr, val Value) {
	lhs = unparen(lhs)
	switch x := lhs.(type) {
	case *ast.Ident:
		if x.Name == "_" {
			return
		}
		obj := v.info().Uses[x]
		if obj == nil {
			obj = v.info().Defs[x]
		}
		if obj == nil {
			return
		}
		t := v.substT(obj.Type())
		val = v.convert(st, val, t)
		if vr, ok := obj.(*types.Var); ok && vr.Pkg() != nil && vr.Parent() == vr.Pkg().Scope() {
			name := "G_" + mangle(vr.Pkg().Path()+"."+vr.Name())
			st.heap(name, v.c.sortOf(t))
			st.setHeap(name, val.S)
			return
		}
		v.setVar(st, obj, val)
	case *ast.StarExpr:
		p := v.expr(st, x.X)
		t := v.typeOf(x)
		v.nilCheck(st, x, p)
		v.store(st, t, p.S, v.convert(st, val, t).S)
	case *ast.SelectorExpr:
		sel, ok := v.info().Selections[x]
		if !ok {
			// qualified identifier pkg.Var
			if obj, ok := v.info().Uses[x.Sel].(*types.Var); ok {
				name := "G_" + mangle(obj.Pkg().Path()+"."+obj.Name())
				st.heap(name, v.c.sortOf(obj.Type()))
				st.setHeap(name, v.convert(st, val, obj.Type()).S)
			}
			return
		}
		v.assignField(st, x.X, v.typeOf(x.X), sel.Index(), val)
	case *ast.IndexExpr:
		xt := v.typeOf(x.X)
		switch u := xt.Underlying().(type) {
		case *types.Slice:
			sl := v.expr(st, x.X)
			idx := v.convertIdx(st, v.expr(st, x.Index))
			v.safety(st, "index", x, sAnd(sLe("0", idx), sLt(idx, sx("sllen", sl.S))), "slice index in range")
			v.sliceStore(st, u.Elem(), sl.S, idx, v.convert(st, val, u.Elem()).S)
		case *types.Array:
			cur := v.expr(st, x.X)
			idx := v.convertIdx(st, v.expr(st, x.Index))
			v.safety(st, "index", x, sAnd(sLe("0", idx), sLt(idx, fmt.Sprint(u.Len()))), "array index in range")
			v.assignTo(st, x.X, Value{T: xt, S: sStore(cur.S, idx, v.convert(st, val, u.Elem()).S)})
		case *types.Pointer:
			if at, ok := u.Elem().Underlying().(*types.Array); ok {
				p := v.expr(st, x.X)
				idx := v.convertIdx(st, v.expr(st, x.Index))
				v.safety(st, "index", x, sAnd(sLe("0", idx), sLt(idx, fmt.Sprint(at.Len()))), "array index in range")
				cur := v.load(st, u.Elem(), p.S)
				v.store(st, u.Elem(), p.S, sStore(cur, idx, v.convert(st, val, at.Elem()).S))
			}
		case *types.Map:
			m := v.expr(st, x.X)
			k := v.convert(st, v.expr(st, x.Index), u.Key())
			v.safety(st, "index", x, sNot(sEq(m.S, "0")), "assignment to entry in nil map")
			v.mapStore(st, u, m, k, v.convert(st, val, u.Elem()))
		default:
			v.abstract(x, "assignment to index of unsupported type")
		}
	default:
		v.abstract(lhs, fmt.Sprintf("unsupported lvalue %T", lhs))
	}
}

// assignField assigns val to the field path of the value denoted by base.
func (v *FnV) assignField(st *State, base ast.Expr, bt types.Type, path []int, val Value) {
	if len(path) == 0 {
		v.assignTo(st, base, val)
		return
	}
	if pt, ok := bt.Underlying().(*types.Pointer); ok {
		p := v.expr(st, base)
		v.nilCheck(st, base, p)
		cur := v.load(st, pt.Elem(), p.S)
		nv := v.updatePath(st, pt.Elem(), cur, path, val)
		v.store(st, pt.Elem(), p.S, nv)
		return
	}
	cur := v.expr(st, base)
	nv := v.updatePath(st, bt, cur.S, path, val)
	v.assignTo(st, base, Value{T: bt, S: nv})
}

// updatePath returns struct term s (of type t) with the nested field path set to val.
func (v *FnV) updatePath(st *State, t types.Type, s string, path []int, val Value) string {
	stt := structType(t)
	if stt == nil {
		return s
	}
	f := stt.Field(path[0])
	ft := v.substT(f.Type())
	if len(path) == 1 {
		return v.c.fieldSet(t, s, path[0], v.convert(st, val, ft).S)
	}
	if pt, ok := ft.Underlying().(*types.Pointer); ok {
		// embedded pointer: update through the heap
		p := v.c.fieldGet(t, s, path[0])
		cur := v.load(st, pt.Elem(), p)
		v.store(st, pt.Elem(), p, v.updatePath(st, pt.Elem(), cur, path[1:], val))
		return s
	}
	inner := v.updatePath(st, ft, v.c.fieldGet(t, s, path[0]), path[1:], val)
	return v.c.fieldSet(t, s, path[0], inner)
}

func (v *FnV) nilCheck(st *State, n ast.Node, p Value) {
	if len(v.fc.Extra["nilcheck"]) > 0 {
		v.oblige(st, "nil-deref", n, v.fr().ord[n], sNot(sEq(p.S, "0")), "pointer is not nil")
	}
	st.assume(sNot(sEq(p.S, "0")))
}

func (v *FnV) ret(st *State, x *ast.ReturnStmt) Flow {
	fr := v.fr()
	ex := Exit{kind: exReturn, st: st, node: x}
	if len(x.Results) == 0 {
		for _, r := range fr.results {
			ex.results = append(ex.results, v.getVar(st, r))
		}
	} else if len(x.Results) == 1 && len(fr.results) > 1 {
		vals := v.multi(st, x.Results[0], len(fr.results))
		for i, r := range fr.results {
			ex.results = append(ex.results, v.convert(st, vals[i], v.substT(r.Type())))
		}
	} else {
		for i, r := range x.Results {
			val := v.expr(st, r)
			if i < len(fr.results) {
				val = v.convert(st, val, v.substT(fr.results[i].Type()))
			}
			ex.results = append(ex.results, val)
		}
	}
	if st.dead {
		return Flow{}
	}
	// named results are assigned before deferred functions run
	for i, r := range fr.results {
		if !strings.HasPrefix(r.Name(), "res!") && i < len(ex.results) {
			v.setVar(st, r, ex.results[i])
		}
	}
	ex.pre = append([]Value(nil), ex.results...)
	v.runDefers(&ex, fr)
	return Flow{exits: []Exit{ex}}
}

func (v *FnV) runDefers(ex *Exit, fr *Frame) {
	st := ex.st
	ran := false
	if len(v.frames) == 1 {
		// deferred literals of the function under verification may mention `returned` in their loop invariants
		saved := v.returned
		v.returned = ex.pre
		defer func() { v.returned = saved }()
	}
	for len(st.defers) > fr.defers {
		d := st.defers[len(st.defers)-1]
		st.defers = st.defers[:len(st.defers)-1]
		ran = true
		run := func(s *State) {
			if d.lit != nil {
				v.inlineLit(s, d.lit, d.frame, nil)
			} else if d.call != nil {
				v.callWithArgs(s, d.call, d.args)
			}
		}
		if d.cond == "" {
			run(st)
		} else {
			// registered on some of the merged paths only
			base := len(st.items)
			sT := st.fork()
			sT.assume(d.cond)
			run(sT)
			sF := st.fork()
			sF.assume(sNot(d.cond))
			if m := v.merge(base, sT, sF); m != nil {
				m.defers = st.defers
				*st = *m
			}
		}
	}
	if ran {
		for i, r := range fr.results {
			if !strings.HasPrefix(r.Name(), "res!") && i < len(ex.results) {
				ex.results[i] = v.getVar(st, r)
			}
		}
	}
}

func (v *FnV) ifStmt(st *State, x *ast.IfStmt) Flow {
	var fl Flow
	if x.Init != nil {
		f := v.stmt(st, x.Init)
		if f.normal == nil {
			return f
		}
		st = f.normal
	}
	base := len(st.items)
	cond := v.expr(st, x.Cond)
	if st.dead {
		return Flow{}
	}
	cn := st.define("c", "Bool", cond.S)
	base = len(st.items)
	sT := st.fork()
	sT.assume(cn)
	sF := st
	sF.assume(sNot(cn))
	fT := v.block(sT, x.Body.List)
	var fF Flow
	if x.Else != nil {
		fF = v.stmt(sF, x.Else)
	} else {
		fF = Flow{normal: sF}
	}
	fl.exits = append(fT.exits, fF.exits...)
	fl.normal = v.merge(base, fT.normal, fF.normal)
	return fl
}

func (v *FnV) merge(base int, sts ...*State) *State {
	var live []*State
	for _, s := range sts {
		if s != nil && !s.dead {
			live = append(live, s)
		}
	}
	if len(live) == 0 {
		return nil
	}
	m := mergeStates(base, live)
	// defers: keep the longest list (conditional defers are not modelled precisely)
	for _, s := range live {
		if len(s.defers) > len(m.defers) {
			m.defers = s.defers
		}
	}
	return m
}

func matchLabel(ex Exit, label string) bool { return ex.label == "" || ex.label == label }

func (v *FnV) switchStmt(st *State, x *ast.SwitchStmt, label string) Flow {
	var out Flow
	if x.Init != nil {
		f := v.stmt(st, x.Init)
		if f.normal == nil {
			return f
		}
		st = f.normal
	}
	var tag *Value
	if x.Tag != nil {
		t := v.expr(st, x.Tag)
		tag = &t
	}
	base := len(st.items)
	var ends []*State
	cur := st
	var defaultClause *ast.CaseClause
	clauses := x.Body.List
	var pendingFall *State
	runBody := func(s *State, idx int) {
		for {
			cc := clauses[idx].(*ast.CaseClause)
			f := v.block(s, cc.Body)
			var fall *State
			for _, ex := range f.exits {
				switch {
				case ex.kind == exBreak && matchLabel(ex, label):
					ends = append(ends, ex.st)
				case ex.kind == exFallthrough:
					fall = ex.st
				default:
					out.exits = append(out.exits, ex)
				}
			}
			if f.normal != nil {
				ends = append(ends, f.normal)
			}
			if fall == nil || idx+1 >= len(clauses) {
				return
			}
			s = fall
			idx++
		}
	}
	_ = pendingFall
	defaultIdx := -1
	for i, c := range clauses {
		cc := c.(*ast.CaseClause)
		if cc.List == nil {
			defaultClause = cc
			defaultIdx = i
			continue
		}
		var conds []string
		for _, e := range cc.List {
			if tag != nil {
				ev := v.expr(cur, e)
				conds = append(conds, v.eq(cur, *tag, ev, e))
			} else {
				conds = append(conds, v.expr(cur, e).S)
			}
		}
		cn := cur.define("case", "Bool", sOr(conds...))
		sT := cur.fork()
		sT.assume(cn)
		cur.assume(sNot(cn))
		runBody(sT, i)
	}
	if defaultClause != nil {
		runBody(cur, defaultIdx)
	} else {
		ends = append(ends, cur)
	}
	out.normal = v.merge(base, ends...)
	return out
}

func (v *FnV) typeSwitch(st *State, x *ast.TypeSwitchStmt, label string) Flow {
	var out Flow
	if x.Init != nil {
		f := v.stmt(st, x.Init)
		if f.normal == nil {
			return f
		}
		st = f.normal
	}
	var subject ast.Expr
	switch a := x.Assign.(type) {
	case *ast.ExprStmt:
		subject = a.X.(*ast.TypeAssertExpr).X
	case *ast.AssignStmt:
		subject = a.Rhs[0].(*ast.TypeAssertExpr).X
	}
	iv := v.expr(st, subject)
	base := len(st.items)
	var ends []*State
	cur := st
	var def *ast.CaseClause
	handle := func(s *State, cc *ast.CaseClause, single types.Type) {
		if obj := v.info().Implicits[cc]; obj != nil {
			t := v.substT(obj.Type())
			if single != nil && !isInterface(single) {
				pv := v.c.fromIface(iv.S, t)
				s.assume(v.c.rangeOf(t, pv, s.alloc))
				v.setVar(s, obj, Value{T: t, S: pv})
			} else {
				v.setVar(s, obj, Value{T: t, S: iv.S})
			}
		}
		f := v.block(s, cc.Body)
		for _, ex := range f.exits {
			if ex.kind == exBreak && matchLabel(ex, label) {
				ends = append(ends, ex.st)
			} else {
				out.exits = append(out.exits, ex)
			}
		}
		if f.normal != nil {
			ends = append(ends, f.normal)
		}
	}
	for _, c := range x.Body.List {
		cc := c.(*ast.CaseClause)
		if cc.List == nil {
			def = cc
			continue
		}
		var conds []string
		var single types.Type
		for _, e := range cc.List {
			tv := v.info().Types[e]
			if tv.IsNil() {
				conds = append(conds, sEq(sx("vtag", iv.S), "0"))
				continue
			}
			t := v.substT(tv.Type)
			conds = append(conds, v.c.hasType(iv.S, t))
			if len(cc.List) == 1 {
				single = t
			}
		}
		cn := cur.define("tcase", "Bool", sOr(conds...))
		sT := cur.fork()
		sT.assume(cn)
		cur.assume(sNot(cn))
		handle(sT, cc, single)
	}
	if def != nil {
		handle(cur, def, nil)
	} else {
		ends = append(ends, cur)
	}
	out.normal = v.merge(base, ends...)
	return out
}

// ---------- loops ----------

// assignedIn computes the local variables assigned inside nodes and whether the heap may change.
func (v *FnV) assignedIn(nodes ...ast.Node) (objs []types.Object, heapWrite bool, calls bool) {
	seen := map[types.Object]bool{}
	info := v.info()
	add := func(e ast.Expr) {
		e = unparen(e)
		if id, ok := e.(*ast.Ident); ok {
			obj := info.Uses[id]
			if obj == nil {
				obj = info.Defs[id]
			}
			if obj != nil && !seen[obj] {
				seen[obj] = true
				objs = append(objs, obj)
			}
			return
		}
		// x.f = ..., x[i] = ... : the root variable changes if it is a value; heap otherwise
		if id := rootIdent(e); id != nil {
			obj := info.Uses[id]
			if obj != nil && !seen[obj] {
				seen[obj] = true
				objs = append(objs, obj)
			}
		}
		heapWrite = true
	}
	for _, n := range nodes {
		if n == nil {
			continue
		}
		ast.Inspect(n, func(n ast.Node) bool {
			switch x := n.(type) {
			case *ast.AssignStmt:
				for _, l := range x.Lhs {
					add(l)
				}
			case *ast.IncDecStmt:
				add(x.X)
			case *ast.RangeStmt:
				if x.Key != nil {
					add(x.Key)
				}
				if x.Value != nil {
					add(x.Value)
				}
			case *ast.CallExpr:
				calls = true
				// pointer-receiver method calls on local values modify them
				if sel, ok := x.Fun.(*ast.SelectorExpr); ok {
					if id := rootIdent(sel.X); id != nil {
						if obj := info.Uses[id]; obj != nil && v.boxed[obj] {
							heapWrite = true
						}
					}
				}
			case *ast.UnaryExpr:
				if x.Op == token.AND {
					heapWrite = true
				}
			case *ast.FuncLit:
				// closures may assign captured variables
			}
			return true
		})
	}
	sort.Slice(objs, func(i, j int) bool { return objs[i].Pos() < objs[j].Pos() })
	return
}

type loopSpec struct {
	invs []*Clause
	decr []*Clause
}

// frameContract: the contract whose loop clauses apply in the current frame (the function under
// verification, or the inlined callee's own contract).
func (v *FnV) frameContract() *FuncContract {
	if len(v.frames) == 1 {
		return v.fc
	}
	// closures and deferred literals share the contract (and loop ordinals) of their declaration
	name := v.fr().name
	for strings.HasSuffix(name, "$lit") {
		name = strings.TrimSuffix(name, "$lit")
	}
	if name == v.frames[0].name {
		return v.fc
	}
	return v.e.cs.Funcs[name]
}

func (v *FnV) loopClauses(ord int) loopSpec {
	var ls loopSpec
	fc := v.frameContract()
	if fc == nil {
		return ls
	}
	for _, cl := range fc.Invs {
		if cl.Loop == 0 || cl.Loop == ord {
			ls.invs = append(ls.invs, cl)
		}
	}
	for _, cl := range fc.Decr {
		if cl.Loop == ord {
			ls.decr = append(ls.decr, cl)
		}
	}
	return ls
}

// loopCore runs the generic cut-point treatment.
//
//	pre:   executed once before the loop (already done by caller)
//	guard: returns the loop condition in a state (nil = true)
//	body:  executes one iteration body
//	post:  executes the post statement
func (v *FnV) loopCore(st *State, node ast.Stmt, label string, modified []ast.Node,
	extraInv func(*State) []string,
	guard func(*State) string, body func(*State) Flow, post func(*State) *State) Flow {

	var out Flow
	ord := v.fr().ord[node]
	if fc := v.frameContract(); fc != nil {
		if n, ok := fc.Unroll[ord]; ok {
			v.autoInv = nil
			v.loopHid, v.loopBind = nil, nil
			return v.unrollLoop(st, node, label, ord, n, guard, body, post)
		}
	}
	ls := v.loopClauses(ord)
	hid, bind := v.loopHid, v.loopBind
	v.loopHid, v.loopBind = nil, nil
	ls.invs = append(ls.invs, v.autoInv...)
	v.autoInv = nil
	sc := &Scope{v: v, vars: map[string]Value{}, pkg: v.fr().pkg, pos: v.loopScopePos(node), old: v.entry, oldVars: v.entryVars()}
	checkInvs := func(s *State, phase string) {
		if hid != nil {
			sc.vars["range_pos"] = s.env[hid]
		}
		for k, cl := range ls.invs {
			s2 := s.fork()
			val, err := v.spec(s2, cl.Expr, sc)
			if err != nil {
				if cl.Loop != 0 {
					v.specError(cl, err)
				}
				continue
			}
			lbl := fmt.Sprintf("%d", k+1)
			if cl.Label != "" {
				lbl = cl.Label
			}
			v.oblige(s2, fmt.Sprintf("inv-%s:%s@loop", phase, lbl), node, ord, val.S, "invariant "+cl.Text)
		}
	}
	assumeInvs := func(s *State) {
		if extraInv != nil {
			for _, a := range extraInv(s) {
				s.assume(a)
			}
		}
		if hid != nil {
			sc.vars["range_pos"] = s.env[hid]
		}
		for _, cl := range ls.invs {
			val, err := v.spec(s, cl.Expr, sc)
			if err != nil {
				continue
			}
			s.assume(val.S)
		}
	}
	// 1. establishment
	checkInvs(st, "init")
	// 2. havoc
	objs, heapWrite, calls := v.assignedIn(modified...)
	for _, o := range objs {
		if vr, ok := o.(*types.Var); ok && vr.Pkg() != nil && vr.Parent() == vr.Pkg().Scope() {
			heapWrite = true
			continue
		}
		if _, ok := st.env[o]; !ok {
			continue // declared inside the loop
		}
		if v.boxed[o] {
			heapWrite = true
			continue
		}
		st.env[o] = st.freshVal(o.Name(), st.env[o].T)
	}
	if heapWrite || calls {
		if !v.loopPure(modified) {
			if targets, ok := v.sliceWriteTargets(st, objs, modified); ok {
				// a call-free loop whose only heap writes are xs[i] = .. / xs[i].f = .. for local
				// slices xs that the loop does not reassign: exactly those arrays change
				for _, t := range targets {
					slt := t.T.Underlying().(*types.Slice)
					et := v.substT(slt.Elem())
					name, h := v.elemHeap(st, et)
					na := v.c.freshName("looparr")
					st.declare(na, "(Array Int "+v.c.sortOf(et)+")")
					st.setHeap(name, sStore(h, sx("sref", t.S), na))
				}
			} else {
				st.havocAllHeaps()
			}
		}
	}
	if st.ghost != nil {
		special := false // kinds that are not calls (go statements, map writes, appends): any loop may log them
		for _, k := range v.logKinds {
			if k == "go" || k == "mapstore" || k == "mapdelete" || strings.HasPrefix(k, "append:") {
				special = true
			}
		}
		if special || (calls && v.loopMayLog(modified)) {
			v.havocLog(st)
		}
	}
	assumeInvs(st)
	base := len(st.items)
	// 3. one arbitrary iteration
	var exits []*State
	sB := st.fork()
	g := "true"
	if guard != nil {
		g = guard(sB)
	}
	gn := sB.define("g", "Bool", g)
	sB.assume(gn)
	_ = bind
	if hid != nil {
		sc.vars["range_pos"] = sB.env[hid]
		v.applyHook = func(s *State) { v.applyAt(s, ord, sc) }
	} else {
		v.applyAt(sB, ord, sc)
	}
	iterStart := sB.fork()
	var decrBefore []string
	for _, cl := range ls.decr {
		val, err := v.spec(sB, cl.Expr, sc)
		if err == nil {
			decrBefore = append(decrBefore, sB.define("decr", "Int", val.S))
		} else {
			v.specError(cl, err)
		}
	}
	f := v.blockFlow(sB, body)
	var conts []*State
	if f.normal != nil {
		conts = append(conts, f.normal)
	}
	for _, ex := range f.exits {
		switch {
		case ex.kind == exBreak && matchLabel(ex, label):
			exits = append(exits, ex.st)
		case ex.kind == exContinue && matchLabel(ex, label):
			conts = append(conts, ex.st)
		default:
			out.exits = append(out.exits, ex)
		}
	}
	for _, s := range conts {
		if post != nil {
			s = post(s)
			if s == nil {
				continue
			}
		}
		checkInvs(s, "pres")
		if len(v.frames) == 1 {
			for k, cl := range v.fc.Steps {
				if cl.Loop != ord {
					continue
				}
				s2 := s.fork()
				ssc := *sc
				ssc.old = iterStart
				ssc.oldVars = map[string]Value{}
				ssc.oldLocals = true
				val, err := v.spec(s2, cl.Expr, &ssc)
				if err != nil {
					v.specError(cl, err)
					continue
				}
				lbl := fmt.Sprintf("%d", k+1)
				if cl.Label != "" {
					lbl = cl.Label
				}
				v.oblige(s2, "step:"+lbl+"@loop", node, ord, val.S, "step "+cl.Text)
			}
		}
		for i, cl := range ls.decr {
			if i >= len(decrBefore) {
				break
			}
			s2 := s.fork()
			val, err := v.spec(s2, cl.Expr, sc)
			if err != nil {
				continue
			}
			v.oblige(s2, "decreases@loop", node, ord, sAnd(sLe("0", decrBefore[i]), sLt(val.S, decrBefore[i])), "decreases "+cl.Text)
		}
	}
	// 4. exit
	if guard != nil {
		sE := st.fork()
		// the guard may have side effects/obligations; evaluate again on the exit copy
		g2 := guard(sE)
		sE.assume(sNot(g2))
		exits = append(exits, sE)
	}
	out.normal = v.merge(base, exits...)
	return out
}

func (v *FnV) blockFlow(st *State, body func(*State) Flow) Flow { return body(st) }

func (v *FnV) loopScopePos(node ast.Stmt) token.Pos {
	switch x := node.(type) {
	case *ast.ForStmt:
		return x.Body.Lbrace + 1
	case *ast.RangeStmt:
		return x.Body.Lbrace + 1
	}
	return node.Pos()
}

func (v *FnV) entryVars() map[string]Value {
	m := map[string]Value{}
	sig := v.frames[0].sig
	add := func(p *types.Var) {
		if p != nil && p.Name() != "" && p.Name() != "_" {
			m[p.Name()] = v.getVar(v.entry.fork(), p)
		}
	}
	if sig.Recv() != nil {
		add(sig.Recv())
	}
	for i := 0; i < sig.Params().Len(); i++ {
		add(sig.Params().At(i))
	}
	return m
}

// loopPure: the loop body contains no heap writes other than through pure calls.
func (v *FnV) loopPure(nodes []ast.Node) bool {
	pure := true
	info := v.info()
	for _, n := range nodes {
		if n == nil {
			continue
		}
		ast.Inspect(n, func(n ast.Node) bool {
			switch x := n.(type) {
			case *ast.AssignStmt:
				for _, l := range x.Lhs {
					l = unparen(l)
					if id, ok := l.(*ast.Ident); ok {
						if obj := info.Uses[id]; obj != nil {
							if v.boxed[obj] {
								pure = false
							}
							if vr, ok := obj.(*types.Var); ok && vr.Pkg() != nil && vr.Parent() == vr.Pkg().Scope() {
								pure = false
							}
						}
						continue
					}
					if !v.isLocalValueUpdate(l) {
						pure = false
					}
				}
			case *ast.IncDecStmt:
				if _, ok := unparen(x.X).(*ast.Ident); !ok && !v.isLocalValueUpdate(x.X) {
					pure = false
				}
			case *ast.CallExpr:
				if !v.callIsPure(x) {
					pure = false
				}
			case *ast.UnaryExpr:
				if x.Op == token.AND {
					if _, ok := unparen(x.X).(*ast.CompositeLit); !ok {
						// taking addresses is fine; allocation of literals is fine
					}
				}
			case *ast.GoStmt, *ast.SendStmt, *ast.SelectStmt:
				pure = false
			}
			return true
		})
	}
	return pure
}

// isLocalValueUpdate: x.f = v or x[i] = v where x is a local struct/array VALUE (no heap involved).
func (v *FnV) isLocalValueUpdate(l ast.Expr) bool {
	for {
		l = unparen(l)
		switch x := l.(type) {
		case *ast.Ident:
			obj := v.info().Uses[x]
			return obj != nil && !v.boxed[obj]
		case *ast.SelectorExpr:
			if _, ok := v.typeOf(x.X).Underlying().(*types.Pointer); ok {
				return false
			}
			if sel, ok := v.info().Selections[x]; ok && sel.Indirect() {
				return false
			}
			l = x.X
		case *ast.IndexExpr:
			if _, ok := v.typeOf(x.X).Underlying().(*types.Array); !ok {
				return false
			}
			l = x.X
		default:
			return false
		}
	}
}

func (v *FnV) forStmt(st *State, x *ast.ForStmt, label string) Flow {
	if x.Init != nil {
		f := v.stmt(st, x.Init)
		if f.normal == nil {
			return f
		}
		st = f.normal
	}
	var guard func(*State) string
	if x.Cond != nil {
		guard = func(s *State) string { return v.expr(s, x.Cond).S }
	}
	var post func(*State) *State
	if x.Post != nil {
		post = func(s *State) *State { return v.stmt(s, x.Post).normal }
	}
	mods := []ast.Node{x.Body}
	if x.Post != nil {
		mods = append(mods, x.Post)
	}
	if x.Cond != nil {
		mods = append(mods, x.Cond)
	}
	v.autoInv = v.countingLoopInvariant(x)
	return v.loopCore(st, x, label, mods, nil, guard, func(s *State) Flow { return v.block(s, x.Body.List) }, post)
}

func (v *FnV) rangeStmt(st *State, x *ast.RangeStmt, label string) Flow {
	xt := v.typeOf(x.X)
	subj := v.expr(st, x.X)
	// hidden position variable
	hid := types.NewVar(x.Pos(), v.fr().pkg.Types, fmt.Sprintf("range!%d", v.fr().ord[x]), tInt)
	st.env[hid] = Value{T: tInt, S: "0"}
	bindKV := func(s *State, k, val *Value) {
		set := func(e ast.Expr, vv *Value) {
			if e == nil || vv == nil {
				return
			}
			if id, ok := e.(*ast.Ident); ok && id.Name == "_" {
				return
			}
			if x.Tok == token.DEFINE {
				if id, ok := e.(*ast.Ident); ok {
					if obj := v.info().Defs[id]; obj != nil {
						v.setVar(s, obj, v.convert(s, *vv, v.substT(obj.Type())))
						return
					}
				}
			}
			v.assignTo(s, e, *vv)
		}
		set(x.Key, k)
		set(x.Value, val)
	}
	mods := []ast.Node{x.Body}
	var kv []ast.Node
	if x.Key != nil && x.Tok != token.DEFINE {
		kv = append(kv, x.Key)
	}
	_ = kv
	hidInv := func(hi string) func(*State) []string {
		return func(s *State) []string {
			h := s.env[hid].S
			return []string{sLe("0", h), sLe(h, hi)}
		}
	}
	havocHid := func(s *State) {}
	_ = havocHid
	switch u := xt.Underlying().(type) {
	case *types.Slice, *types.Array:
		var n string
		var elem types.Type
		var get func(s *State, i string) string
		if sl, ok := u.(*types.Slice); ok {
			n = st.define("n", "Int", sx("sllen", subj.S))
			elem = sl.Elem()
			get = func(s *State, i string) string { return v.sliceLoad(s, elem, subj.S, i) }
		} else {
			at := u.(*types.Array)
			n = fmt.Sprint(at.Len())
			elem = at.Elem()
			get = func(s *State, i string) string { return sSelect(subj.S, i) }
		}
		return v.loopWithHidden(st, x, label, hid, mods, hidInv(n),
			func(s *State) string { return sLt(s.env[hid].S, n) },
			func(s *State) Flow {
				i := s.env[hid]
				var val *Value
				if x.Value != nil {
					val = &Value{T: elem, S: get(s, i.S)}
				}
				bindKV(s, &i, val)
				v.runApplyHook(s)
				return v.block(s, x.Body.List)
			},
			func(s *State) *State {
				s.env[hid] = Value{T: tInt, S: sAdd(s.env[hid].S, "1")}
				return s
			})
	case *types.Basic:
		if isString(xt) {
			v.c.utf8Fns()
			n := st.define("n", "Int", sx("slen", subj.S))
			return v.loopWithHidden(st, x, label, hid, mods,
				func(s *State) []string {
					h := s.env[hid].S
					return []string{sLe("0", h), sLe(h, n), sx("bd", subj.S, h)}
				},
				func(s *State) string { return sLt(s.env[hid].S, n) },
				func(s *State) Flow {
					i := s.env[hid]
					r := Value{T: tRune, S: sx("dr", subj.S, i.S)}
					s.assume(v.c.utf8Facts(subj.S, i.S))
					bindKV(s, &i, &r)
				v.runApplyHook(s)
					return v.block(s, x.Body.List)
				},
				func(s *State) *State {
					h := s.env[hid].S
					s.env[hid] = Value{T: tInt, S: sAdd(h, sx("dz", subj.S, h))}
					return s
				})
		}
		if isIntType(xt) {
			n := subj.S
			return v.loopWithHidden(st, x, label, hid, mods, func(s *State) []string {
				h := s.env[hid].S
				return []string{sLe("0", h), sOr(sLe(h, n), sLe(n, "0"))}
			},
				func(s *State) string { return sLt(s.env[hid].S, n) },
				func(s *State) Flow {
					i := Value{T: xt, S: s.env[hid].S}
					bindKV(s, &i, nil)
				v.runApplyHook(s)
					return v.block(s, x.Body.List)
				},
				func(s *State) *State {
					s.env[hid] = Value{T: tInt, S: sAdd(s.env[hid].S, "1")}
					return s
				})
		}
	case *types.Map:
		// arbitrary present key each iteration; no order, no count
		return v.loopWithHidden(st, x, label, hid, mods, nil,
			func(s *State) string { return s.freshVal("more", tBool).S },
			func(s *State) Flow {
				k := s.freshVal("k", u.Key())
				val, present := v.mapLookup(s, u, subj, k)
				s.assume(present)
				bindKV(s, &k, &val)
				v.runApplyHook(s)
				return v.block(s, x.Body.List)
			}, nil)
	case *types.Chan:
		v.abstract(x, "range over channel")
		return v.loopWithHidden(st, x, label, hid, mods, nil,
			func(s *State) string { v.yield(s); return s.freshVal("more", tBool).S },
			func(s *State) Flow {
				k := s.freshVal("recv", u.Elem())
				bindKV(s, &k, nil)
				v.runApplyHook(s)
				return v.block(s, x.Body.List)
			}, nil)
	case *types.Signature:
		v.abstract(x, "range over func")
	}
	v.abstract(x, "unsupported range")
	st.havocAllHeaps()
	return Flow{normal: st}
}

func (v *FnV) loopWithHidden(st *State, x *ast.RangeStmt, label string, hid types.Object, mods []ast.Node,
	inv func(*State) []string, guard func(*State) string, body func(*State) Flow, post func(*State) *State) Flow {
	// the hidden variable is havocked explicitly: assignedIn cannot see it
	wrappedInv := func(s *State) []string {
		if inv == nil {
			return nil
		}
		return inv(s)
	}
	// make the hidden variable look modified
	return v.loopCoreHidden(st, x, label, hid, mods, wrappedInv, guard, body, post)
}

func (v *FnV) loopCoreHidden(st *State, x *ast.RangeStmt, label string, hid types.Object, mods []ast.Node,
	inv func(*State) []string, guard func(*State) string, body func(*State) Flow, post func(*State) *State) Flow {
	first := true
	extra := func(s *State) []string {
		if first {
			// called right after havoc in loopCore: havoc the hidden variable too
			first = false
			s.env[hid] = s.freshVal("pos", tInt)
		}
		if inv == nil {
			return nil
		}
		return inv(s)
	}
	// also bind key/value variables that are assigned (not defined) by the range clause
	if x.Tok == token.ASSIGN {
		if x.Key != nil {
			mods = append(mods, &ast.AssignStmt{Lhs: []ast.Expr{x.Key}, Tok: token.ASSIGN, Rhs: []ast.Expr{x.Key}})
		}
		if x.Value != nil {
			mods = append(mods, &ast.AssignStmt{Lhs: []ast.Expr{x.Value}, Tok: token.ASSIGN, Rhs: []ast.Expr{x.Value}})
		}
	}
	v.loopHid = hid
	return v.loopCore(st, x, label, mods, extra, guard, body, post)
}

func (v *FnV) runApplyHook(s *State) {
	if h := v.applyHook; h != nil {
		v.applyHook = nil
		h(s)
	}
}

// countingLoopInvariant recognises "for i := <int literal>; ...; i++" whose body
// does not assign i and proposes the (checked) invariant i >= <literal>.
func (v *FnV) countingLoopInvariant(x *ast.ForStmt) []*Clause {
	as, ok := x.Init.(*ast.AssignStmt)
	if !ok || as.Tok != token.DEFINE || len(as.Lhs) != 1 || len(as.Rhs) != 1 {
		return nil
	}
	id, ok := as.Lhs[0].(*ast.Ident)
	if !ok {
		return nil
	}
	lit, ok := as.Rhs[0].(*ast.BasicLit)
	if !ok || lit.Kind != token.INT {
		return nil
	}
	inc, ok := x.Post.(*ast.IncDecStmt)
	if !ok || inc.Tok != token.INC {
		return nil
	}
	if pid, ok := inc.X.(*ast.Ident); !ok || pid.Name != id.Name {
		return nil
	}
	obj := v.info().Defs[id]
	assigned := false
	ast.Inspect(x.Body, func(n ast.Node) bool {
		switch s := n.(type) {
		case *ast.AssignStmt:
			for _, l := range s.Lhs {
				if lid, ok := l.(*ast.Ident); ok && v.info().Uses[lid] == obj {
					assigned = true
				}
			}
		case *ast.IncDecStmt:
			if lid, ok := s.X.(*ast.Ident); ok && v.info().Uses[lid] == obj {
				assigned = true
			}
		case *ast.UnaryExpr:
			if s.Op == token.AND {
				if lid, ok := s.X.(*ast.Ident); ok && v.info().Uses[lid] == obj {
					assigned = true
				}
			}
		}
		return true
	})
	if assigned {
		return nil
	}
	text := id.Name + " >= " + lit.Value
	e, err := parseSpec(text)
	if err != nil {
		return nil
	}
	return []*Clause{{Kind: "invariant", Label: "auto-counter", Expr: e, Text: text + " (synthesised for the counting loop)", Loop: -1}}
}

// unrollLoop executes a loop whose trip count is bounded by n completely: n
// iterations are executed symbolically and "the guard is false after n
// iterations" is an obligation, so this is exact, not a bound.
func (v *FnV) unrollLoop(st *State, node ast.Stmt, label string, ord, n int,
	guard func(*State) string, body func(*State) Flow, post func(*State) *State) Flow {
	var out Flow
	base := len(st.items)
	var exits []*State
	cur := st
	for k := 0; k <= n; k++ {
		if cur == nil || cur.dead {
			break
		}
		g := "true"
		if guard != nil {
			g = guard(cur)
		}
		gn := cur.define("ug", "Bool", g)
		if k == n {
			s2 := cur.fork()
			v.oblige(s2, "unroll-complete@loop", node, ord, sNot(gn), fmt.Sprintf("the loop has terminated after %d iterations", n))
			ex := cur.fork()
			ex.assume(sNot(gn))
			exits = append(exits, ex)
			break
		}
		ex := cur.fork()
		ex.assume(sNot(gn))
		exits = append(exits, ex)
		cur.assume(gn)
		f := body(cur)
		var conts []*State
		if f.normal != nil {
			conts = append(conts, f.normal)
		}
		for _, e := range f.exits {
			switch {
			case e.kind == exBreak && matchLabel(e, label):
				exits = append(exits, e.st)
			case e.kind == exContinue && matchLabel(e, label):
				conts = append(conts, e.st)
			default:
				out.exits = append(out.exits, e)
			}
		}
		cur = v.merge(base, conts...)
		if cur != nil && post != nil {
			cur = post(cur)
		}
	}
	out.normal = v.merge(base, exits...)
	return out
}

// sliceWriteTargets: see loopCore. ok is false unless every heap write of the loop is
// provably a store into the array of a local slice variable.
func (v *FnV) sliceWriteTargets(st *State, assigned []types.Object, nodes []ast.Node) (targets []Value, ok bool) {
	info := v.info()
	direct := map[types.Object]bool{}
	for _, o := range assigned {
		direct[o] = true
	}
	ok = true
	seen := map[types.Object]bool{}
	lhs := func(e ast.Expr) {
		e = unparen(e)
		if _, isId := e.(*ast.Ident); isId {
			return
		}
		for {
			switch x := e.(type) {
			case *ast.ParenExpr:
				e = x.X
				continue
			case *ast.SelectorExpr:
				if t := info.TypeOf(x.X); t == nil {
					ok = false
					return
				} else if _, isPtr := t.Underlying().(*types.Pointer); isPtr {
					ok = false
					return
				}
				e = x.X
				continue
			case *ast.IndexExpr:
				id, isId := unparen(x.X).(*ast.Ident)
				if !isId {
					ok = false
					return
				}
				obj, _ := info.Uses[id].(*types.Var)
				if obj == nil || obj.IsField() || (obj.Pkg() != nil && obj.Parent() == obj.Pkg().Scope()) || v.boxed[obj] || direct[obj] {
					ok = false
					return
				}
				if _, isSl := obj.Type().Underlying().(*types.Slice); !isSl {
					ok = false
					return
				}
				val, have := st.env[obj]
				if !have {
					ok = false
					return
				}
				if !seen[obj] {
					seen[obj] = true
					targets = append(targets, val)
				}
				return
			default:
				ok = false
				return
			}
		}
	}
	for _, n := range nodes {
		if n == nil {
			continue
		}
		ast.Inspect(n, func(n ast.Node) bool {
			switch x := n.(type) {
			case *ast.AssignStmt:
				for _, l := range x.Lhs {
					lhs(l)
				}
			case *ast.IncDecStmt:
				lhs(x.X)
			case *ast.CallExpr:
				if id, isId := unparen(x.Fun).(*ast.Ident); isId {
					if b, isB := info.Uses[id].(*types.Builtin); isB && (b.Name() == "len" || b.Name() == "cap" || b.Name() == "min" || b.Name() == "max") {
						return true
					}
				}
				if tv, has := info.Types[x.Fun]; has && tv.IsType() {
					return true // a conversion
				}
				ok = false
			case *ast.UnaryExpr:
				if x.Op == token.AND || x.Op == token.ARROW {
					ok = false
				}
			case *ast.FuncLit, *ast.GoStmt, *ast.DeferStmt, *ast.SendStmt, *ast.SelectStmt:
				ok = false
			case *ast.RangeStmt:
				if x.Key != nil {
					lhs(x.Key)
				}
				if x.Value != nil {
					lhs(x.Value)
				}
			}
			return true
		})
	}
	if len(targets) == 0 {
		ok = false
	}
	return
}
