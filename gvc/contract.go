package main

import (
	"fmt"
	"go/ast"
	"strconv"
	"strings"
	"unicode"
)

// ---------- spec expression AST ----------

type SExpr struct {
	Op   string // lit, str, ident, bin, un, call, index, slice, field, ite, forall, exists, assert(type assertion), nil, true/false via ident
	Name string // ident name, operator, field name, call name
	Lit  string // literal text
	Args []*SExpr
	// quantifiers
	Vars  []string
	VType string
	Src   string
}

func (e *SExpr) String() string {
	if e == nil {
		return "<nil>"
	}
	if e.Src != "" {
		return e.Src
	}
	return e.Op + ":" + e.Name
}

type tok struct {
	k string // id, num, str, chr, op, eof
	s string
}

func lexSpec(src string) ([]tok, error) {
	var out []tok
	i := 0
	for i < len(src) {
		c := src[i]
		switch {
		case c == ' ' || c == '\t':
			i++
		case unicode.IsLetter(rune(c)) || c == '_' || c == '\\':
			j := i + 1
			for j < len(src) && (unicode.IsLetter(rune(src[j])) || unicode.IsDigit(rune(src[j])) || src[j] == '_') {
				j++
			}
			out = append(out, tok{"id", src[i:j]})
			i = j
		case c >= '0' && c <= '9':
			j := i + 1
			for j < len(src) && (unicode.IsLetter(rune(src[j])) || unicode.IsDigit(rune(src[j])) || src[j] == '_') {
				j++
			}
			out = append(out, tok{"num", src[i:j]})
			i = j
		case c == '"':
			j := i + 1
			for j < len(src) && src[j] != '"' {
				if src[j] == '\\' {
					j++
				}
				j++
			}
			if j >= len(src) {
				return nil, fmt.Errorf("unterminated string")
			}
			out = append(out, tok{"str", src[i : j+1]})
			i = j + 1
		case c == '\'':
			j := i + 1
			for j < len(src) && src[j] != '\'' {
				if src[j] == '\\' {
					j++
				}
				j++
			}
			if j >= len(src) {
				return nil, fmt.Errorf("unterminated char")
			}
			out = append(out, tok{"chr", src[i : j+1]})
			i = j + 1
		default:
			ops := []string{"<==>", "==>", "===", "&&", "||", "==", "!=", "<=", ">=", "<<", ">>", "::", "&^"}
			matched := false
			for _, op := range ops {
				if strings.HasPrefix(src[i:], op) {
					out = append(out, tok{"op", op})
					i += len(op)
					matched = true
					break
				}
			}
			if !matched {
				out = append(out, tok{"op", string(c)})
				i++
			}
		}
	}
	out = append(out, tok{"eof", ""})
	return out, nil
}

type specParser struct {
	toks []tok
	pos  int
	src  string
}

func parseSpec(src string) (e *SExpr, err error) {
	toks, err := lexSpec(src)
	if err != nil {
		return nil, err
	}
	p := &specParser{toks: toks, src: src}
	defer func() {
		if r := recover(); r != nil {
			if s, ok := r.(specErr); ok {
				err = fmt.Errorf("%s in spec %q", string(s), src)
				return
			}
			panic(r)
		}
	}()
	e = p.expr(0)
	if p.peek().k != "eof" {
		p.fail("unexpected " + p.peek().s)
	}
	e.Src = src
	return e, nil
}

type specErr string

func (p *specParser) fail(msg string) { panic(specErr(msg)) }
func (p *specParser) peek() tok       { return p.toks[p.pos] }
func (p *specParser) next() tok       { t := p.toks[p.pos]; p.pos++; return t }
func (p *specParser) accept(op string) bool {
	if p.peek().k == "op" && p.peek().s == op {
		p.pos++
		return true
	}
	return false
}
func (p *specParser) expect(op string) {
	if !p.accept(op) {
		p.fail("expected " + op + " got " + p.peek().s)
	}
}

var binPrec = map[string]int{
	"<==>": 1, "==>": 2, "||": 4, "&&": 5,
	"==": 6, "===": 6, "!=": 6, "<": 6, "<=": 6, ">": 6, ">=": 6,
	"+": 7, "-": 7, "|": 7, "^": 7,
	"*": 8, "/": 8, "%": 8, "<<": 8, ">>": 8, "&": 8, "&^": 8,
}

func (p *specParser) expr(min int) *SExpr {
	// quantifiers extend as far as possible
	if p.peek().k == "id" && (p.peek().s == "forall" || p.peek().s == "exists") {
		q := p.next().s
		var vars []string
		for {
			t := p.next()
			if t.k != "id" {
				p.fail("quantifier variable expected")
			}
			vars = append(vars, t.s)
			if !p.accept(",") {
				break
			}
		}
		// type: tokens until ::
		var ty []string
		for !(p.peek().k == "op" && p.peek().s == "::") {
			if p.peek().k == "eof" {
				p.fail("expected :: in quantifier")
			}
			ty = append(ty, p.next().s)
		}
		p.expect("::")
		body := p.expr(0)
		return &SExpr{Op: q, Vars: vars, VType: strings.Join(ty, ""), Args: []*SExpr{body}}
	}
	lhs := p.unary()
	for {
		t := p.peek()
		if t.k != "op" {
			break
		}
		if t.s == "?" && min <= 3 {
			p.next()
			a := p.expr(0)
			p.expect(":")
			b := p.expr(3)
			lhs = &SExpr{Op: "ite", Args: []*SExpr{lhs, a, b}}
			continue
		}
		prec, ok := binPrec[t.s]
		if !ok || prec < min {
			break
		}
		p.next()
		var rhs *SExpr
		if t.s == "==>" || t.s == "<==>" {
			rhs = p.expr(prec) // right assoc
		} else {
			rhs = p.expr(prec + 1)
		}
		lhs = &SExpr{Op: "bin", Name: t.s, Args: []*SExpr{lhs, rhs}}
	}
	return lhs
}

func (p *specParser) unary() *SExpr {
	t := p.peek()
	if t.k == "op" && (t.s == "!" || t.s == "-" || t.s == "^" || t.s == "*" || t.s == "&") {
		p.next()
		x := p.unary()
		return &SExpr{Op: "un", Name: t.s, Args: []*SExpr{x}}
	}
	return p.postfix(p.primary())
}

func (p *specParser) primary() *SExpr {
	t := p.next()
	switch t.k {
	case "num":
		return &SExpr{Op: "lit", Lit: t.s}
	case "str":
		s, err := strconv.Unquote(t.s)
		if err != nil {
			p.fail("bad string literal " + t.s)
		}
		return &SExpr{Op: "str", Lit: s}
	case "chr":
		r, _, _, err := strconv.UnquoteChar(t.s[1:len(t.s)-1], '\'')
		if err != nil {
			p.fail("bad char literal " + t.s)
		}
		return &SExpr{Op: "lit", Lit: strconv.Itoa(int(r))}
	case "id":
		return &SExpr{Op: "ident", Name: t.s}
	case "op":
		if t.s == "(" {
			e := p.expr(0)
			p.expect(")")
			return e
		}
	}
	p.fail("unexpected token " + t.s)
	return nil
}

func (p *specParser) postfix(x *SExpr) *SExpr {
	for {
		switch {
		case p.accept("."):
			if p.accept("(") {
				// type assertion: collect type text to matching paren
				depth := 1
				var ty []string
				for depth > 0 {
					t := p.next()
					if t.k == "eof" {
						p.fail("unterminated type assertion")
					}
					if t.k == "op" && t.s == "(" {
						depth++
					}
					if t.k == "op" && t.s == ")" {
						depth--
						if depth == 0 {
							break
						}
					}
					ty = append(ty, t.s)
				}
				x = &SExpr{Op: "assert", VType: strings.Join(ty, ""), Args: []*SExpr{x}}
				continue
			}
			t := p.next()
			if t.k != "id" {
				p.fail("field name expected")
			}
			x = &SExpr{Op: "field", Name: t.s, Args: []*SExpr{x}}
		case p.accept("["):
			var lo, hi *SExpr
			if p.peek().k == "op" && p.peek().s == ":" {
				p.next()
				if !(p.peek().k == "op" && p.peek().s == "]") {
					hi = p.expr(0)
				}
				p.expect("]")
				x = &SExpr{Op: "slice", Args: []*SExpr{x, lo, hi}}
				continue
			}
			lo = p.expr(0)
			if p.accept(":") {
				if !(p.peek().k == "op" && p.peek().s == "]") {
					hi = p.expr(0)
				}
				p.expect("]")
				x = &SExpr{Op: "slice", Args: []*SExpr{x, lo, hi}}
				continue
			}
			p.expect("]")
			x = &SExpr{Op: "index", Args: []*SExpr{x, lo}}
		case p.peek().k == "op" && p.peek().s == "(":
			p.next()
			var args []*SExpr
			if !p.accept(")") {
				for {
					// istype(v, T): second arg is a type text
					if x.Op == "ident" && (x.Name == "istype" || x.Name == "tagof" || x.Name == "zero") && (len(args) == 1 || x.Name != "istype") {
						depth := 0
						var ty []string
						for {
							t := p.peek()
							if t.k == "eof" {
								p.fail("unterminated type")
							}
							if t.k == "op" && t.s == "(" {
								depth++
							}
							if t.k == "op" && t.s == ")" {
								if depth == 0 {
									break
								}
								depth--
							}
							ty = append(ty, p.next().s)
						}
						args = append(args, &SExpr{Op: "type", VType: strings.Join(ty, "")})
					} else {
						args = append(args, p.expr(0))
					}
					if p.accept(")") {
						break
					}
					p.expect(",")
				}
			}
			x = &SExpr{Op: "call", Args: append([]*SExpr{x}, args...)}
		default:
			return x
		}
	}
}

// ---------- contract files ----------

type Clause struct {
	Kind  string // requires, ensures, invariant, decreases, assert
	Loop  int    // loop ordinal for invariants (0 = any loop where it type-checks)
	Label string
	Expr  *SExpr
	Text  string
	Line  string // file:line for diagnostics
	Assumed bool // an "assumes" clause: used by callers, not checked against the body
}

type FuncContract struct {
	Pkg      string // package path
	Name     string // "adjustAndCheckIndex" or "Recv.Method"
	Props    []string
	Results  []string
	Requires []*Clause
	Ensures  []*Clause
	Invs     []*Clause
	Applies  []*Clause // lemma/axiom instantiations: Loop 0 = at entry, Loop k = at the start of each iteration of loop k
	Unroll   map[int]int // loop ordinal -> complete unrolling bound
	Steps    []*Clause // loop K step E: relation between the start (old(..)) and the end of one iteration
	Decr     []*Clause
	Pure     bool // no heap effects
	Trusted  bool
	BV       bool
	NoMerge  bool
	MayPanic bool
	Safety   bool // generate panic-freedom obligations (default true)
	Inline   bool
	Where    string
	Extra    map[string][]string
}

func (f *FuncContract) FullName() string { return f.Pkg + "." + f.Name }

type SpecFn struct {
	Pkg    string
	Name   string
	Params []string
	PTypes []string
	RType  string
	Body   *SExpr // nil: uninterpreted
	Rec    bool
	Where  string
}

type Lemma struct {
	Pkg      string
	Name     string
	Props    []string
	Params   []string
	PTypes   []string
	Requires []*Clause
	Ensures  []*Clause
	Decr     *Clause
	Body     []string // proof script lines
	BV       bool
	Axiom    bool // assumed, not proved (listed)
	Where    string
}

type Contracts struct {
	Funcs  map[string]*FuncContract // by full name
	Order  []string
	Specs  map[string]*SpecFn // by pkg.name and by bare name (package-local)
	Lemmas map[string]*Lemma
	LOrder []string
	Errors []string
}

func newContracts() *Contracts {
	return &Contracts{Funcs: map[string]*FuncContract{}, Specs: map[string]*SpecFn{}, Lemmas: map[string]*Lemma{}}
}

// parseContractFile reads the //@ lines of one file.
func (cs *Contracts) parseContractFile(pkgPath string, posOf func(c *ast.Comment) string, f *ast.File) {
	var lines []string
	var wheres []string
	for _, cg := range f.Comments {
		for _, c := range cg.List {
			t := c.Text
			if !strings.HasPrefix(t, "//@") {
				continue
			}
			lines = append(lines, strings.TrimSpace(t[3:]))
			wheres = append(wheres, posOf(c))
		}
	}
	cs.parseLines(pkgPath, lines, wheres)
}

func (cs *Contracts) errf(where, format string, args ...any) {
	cs.Errors = append(cs.Errors, where+": "+fmt.Sprintf(format, args...))
}

func splitParams(s string) (names, tys []string) {
	// "a int, b string" or "a, b int"
	s = strings.TrimSpace(s)
	if s == "" {
		return nil, nil
	}
	parts := strings.Split(s, ",")
	var pending []string
	for _, p := range parts {
		fs := strings.Fields(strings.TrimSpace(p))
		if len(fs) == 1 {
			pending = append(pending, fs[0])
			continue
		}
		ty := strings.Join(fs[1:], "")
		for _, n := range pending {
			names = append(names, n)
			tys = append(tys, ty)
		}
		pending = nil
		names = append(names, fs[0])
		tys = append(tys, ty)
	}
	return
}

func (cs *Contracts) parseLines(pkgPath string, lines, wheres []string) {
	var cur *FuncContract
	var curLemma *Lemma
	for i := 0; i < len(lines); i++ {
		ln := lines[i]
		where := wheres[i]
		// continuation lines: a line ending with \ continues
		for strings.HasSuffix(ln, "\\") && i+1 < len(lines) {
			i++
			ln = strings.TrimSuffix(ln, "\\") + " " + lines[i]
		}
		if ln == "" || strings.HasPrefix(ln, "#") {
			continue
		}
		word, rest := ln, ""
		if k := strings.IndexAny(ln, " \t"); k >= 0 {
			word, rest = ln[:k], strings.TrimSpace(ln[k+1:])
		}
		mkClause := func(kind string) *Clause {
			cl := &Clause{Kind: kind, Text: rest, Line: where}
			r := rest
			// optional "label:" prefix of the form [name]
			if strings.HasPrefix(r, "[") {
				if k := strings.Index(r, "]"); k > 0 {
					cl.Label = r[1:k]
					r = strings.TrimSpace(r[k+1:])
				}
			}
			e, err := parseSpec(r)
			if err != nil {
				cs.errf(where, "%v", err)
				return nil
			}
			cl.Expr = e
			cl.Text = r
			return cl
		}
		switch word {
		case "func":
			cur = &FuncContract{Pkg: pkgPath, Name: rest, Safety: true, Where: where, Extra: map[string][]string{}}
			curLemma = nil
			if _, dup := cs.Funcs[cur.FullName()]; dup {
				cs.errf(where, "duplicate contract for %s", cur.FullName())
			}
			cs.Funcs[cur.FullName()] = cur
			cs.Order = append(cs.Order, cur.FullName())
		case "props":
			if cur != nil {
				cur.Props = append(cur.Props, strings.Fields(rest)...)
			} else if curLemma != nil {
				curLemma.Props = append(curLemma.Props, strings.Fields(rest)...)
			}
		case "results":
			if cur != nil {
				cur.Results = strings.Fields(rest)
			}
		case "assumes":
			// a postcondition that callers may use but that is NOT checked against the body
			// (an assumed part of the contract; always listed in the evidence)
			cl := mkClause("ensures")
			if cl != nil && cur != nil {
				cl.Assumed = true
				cur.Ensures = append(cur.Ensures, cl)
			}
		case "requires", "ensures", "decreases":
			cl := mkClause(word)
			if cl == nil {
				continue
			}
			if curLemma != nil {
				switch word {
				case "requires":
					curLemma.Requires = append(curLemma.Requires, cl)
				case "ensures":
					curLemma.Ensures = append(curLemma.Ensures, cl)
				case "decreases":
					curLemma.Decr = cl
				}
				continue
			}
			if cur == nil {
				cs.errf(where, "%s outside func", word)
				continue
			}
			switch word {
			case "requires":
				cur.Requires = append(cur.Requires, cl)
			case "ensures":
				cur.Ensures = append(cur.Ensures, cl)
			case "decreases":
				cur.Decr = append(cur.Decr, cl)
			}
		case "loop":
			// loop K invariant E | loop K decreases E
			fs := strings.Fields(rest)
			if len(fs) < 3 || cur == nil {
				cs.errf(where, "bad loop clause")
				continue
			}
			k, err := strconv.Atoi(fs[0])
			if err != nil {
				cs.errf(where, "bad loop ordinal")
				continue
			}
			kind := fs[1]
			if kind == "unroll" {
				// loop K unroll N: the loop runs at most N times; it is unrolled completely
				// and "the guard is false after N iterations" is an obligation
				n, err := strconv.Atoi(fs[2])
				if err != nil || n < 0 || n > 64 {
					cs.errf(where, "bad unroll count")
					continue
				}
				if cur.Unroll == nil {
					cur.Unroll = map[int]int{}
				}
				cur.Unroll[k] = n
				continue
			}
			rest = strings.TrimSpace(strings.TrimPrefix(strings.TrimSpace(strings.TrimPrefix(rest, fs[0])), kind))
			cl := mkClause(kind)
			if cl == nil {
				continue
			}
			cl.Loop = k
			switch kind {
			case "invariant":
				cur.Invs = append(cur.Invs, cl)
			case "apply":
				cur.Applies = append(cur.Applies, cl)
			case "step":
				cur.Steps = append(cur.Steps, cl)
			default:
				cur.Decr = append(cur.Decr, cl)
			}
		case "apply":
			cl := mkClause(word)
			if cl != nil && cur != nil {
				cur.Applies = append(cur.Applies, cl)
			}
		case "invariant":
			cl := mkClause(word)
			if cl != nil && cur != nil {
				cur.Invs = append(cur.Invs, cl)
			}
		case "pure":
			if cur != nil {
				cur.Pure = true
			}
		case "trusted":
			if cur != nil {
				cur.Trusted = true
			}
		case "inline":
			if cur != nil {
				cur.Inline = true
			}
		case "maypanic":
			if cur != nil {
				cur.MayPanic = true
			}
		case "nomerge":
			if cur != nil {
				cur.NoMerge = true
			}
		case "nosafety":
			if cur != nil {
				cur.Safety = false
			}
		case "mode":
			if rest == "bv" {
				if cur != nil {
					cur.BV = true
				} else if curLemma != nil {
					curLemma.BV = true
				}
			}
		case "spec":
			// spec fn name(params) rtype = body   |  spec fn name(params) rtype   (uninterpreted)
			r := strings.TrimSpace(strings.TrimPrefix(rest, "fn"))
			rec := false
			if strings.HasPrefix(r, "rec ") {
				rec = true
				r = strings.TrimSpace(r[4:])
			}
			op := strings.Index(r, "(")
			cp := strings.Index(r, ")")
			if op < 0 || cp < op {
				cs.errf(where, "bad spec fn")
				continue
			}
			sf := &SpecFn{Pkg: pkgPath, Name: strings.TrimSpace(r[:op]), Rec: rec, Where: where}
			sf.Params, sf.PTypes = splitParams(r[op+1 : cp])
			tail := strings.TrimSpace(r[cp+1:])
			if k := strings.Index(tail, "="); k >= 0 && !strings.HasPrefix(tail[k:], "==") {
				sf.RType = strings.TrimSpace(tail[:k])
				e, err := parseSpec(strings.TrimSpace(tail[k+1:]))
				if err != nil {
					cs.errf(where, "%v", err)
					continue
				}
				sf.Body = e
			} else {
				sf.RType = tail
			}
			cs.Specs[pkgPath+"."+sf.Name] = sf
			cur, curLemma = nil, nil
		case "lemma", "axiom":
			op := strings.Index(rest, "(")
			cp := strings.LastIndex(rest, ")")
			if op < 0 || cp < op {
				cs.errf(where, "bad lemma header")
				continue
			}
			lm := &Lemma{Pkg: pkgPath, Name: strings.TrimSpace(rest[:op]), Axiom: word == "axiom", Where: where}
			lm.Params, lm.PTypes = splitParams(rest[op+1 : cp])
			cs.Lemmas[pkgPath+"."+lm.Name] = lm
			cs.LOrder = append(cs.LOrder, pkgPath+"."+lm.Name)
			curLemma = lm
			cur = nil
		case "proof":
			if curLemma != nil {
				curLemma.Body = append(curLemma.Body, rest)
			}
		default:
			if cur != nil {
				cur.Extra[word] = append(cur.Extra[word], rest)
			} else {
				cs.errf(where, "unknown directive %q", word)
			}
		}
	}
}
