package main

// Call log (ghost state), exit assertions and closure non-escape.
//
// A function whose contract has a directive
//
//	//@   log fv parse.Parse compile Frame.runDefers
//
// is verified with a ghost LOG of the calls its own activation performs
// (including code inlined into it and its closures / deferred literals):
// "fv" logs every call of an opaque function VALUE (one that is not a literal
// of this activation); the other names log calls of the named functions or
// methods. The log is per activation: what a callee does internally is not
// part of it. Clauses may use
//
//	ncalls            number of logged calls so far
//	ncallsof("X")     number of logged calls of kind X
//	callis(k, "X")    the k-th logged call is of kind X
//	callfn(k)         the function value called (kind fv) / the pointer receiver
//	callidx(k)        for a call of the form xs[i](...): the index i (else -1)
//	callarg(k)        first argument, boxed as an interface value
//	callres(k)        first result, boxed
//	callerr(k)        last result, boxed
//
// `exit E` clauses are checked at every return after the deferred functions
// have run; they may mention the locals declared at the top level of the body
// and `returned` (the first result as assigned by the return statement, before
// deferred functions ran).

import (
	"fmt"
	"go/ast"
	"go/types"
	"strings"
)

type callInfo struct {
	full   string  // static callee ("" for function values)
	opaque bool    // call of an opaque function value
	fv     string  // term of the function value
	idx    string  // index term for xs[i](...)
	recv   *Value
	args   []Value
}

func (v *FnV) logKind(name string) int {
	for i, k := range v.logKinds {
		if k == name {
			return i
		}
	}
	return -1
}

// logKindOf: which logged kind (if any) a call belongs to.
func (v *FnV) logKindOf(ci *callInfo) int {
	if ci.opaque {
		return v.logKind("fv")
	}
	if ci.full == "" {
		return -1
	}
	sn := shortName(ci.full)
	for i, k := range v.logKinds {
		if k == "fv" {
			continue
		}
		if sn == k || strings.HasSuffix(ci.full, "."+k) || strings.HasSuffix(sn, "."+k) {
			return i
		}
	}
	return -1
}

func (v *FnV) initLog(st *State) {
	var kinds []string
	for _, l := range v.fc.Extra["log"] {
		kinds = append(kinds, strings.Fields(l)...)
	}
	if len(kinds) == 0 {
		return
	}
	v.logKinds = kinds
	st.ghost = map[string]string{"lgN": "0"}
	for _, k := range []string{"lgK", "lgF", "lgI", "lgR", "lgE", "lgA", "lgB", "lgD"} {
		name := k + "!0"
		v.c.glob("ghost:"+name, fmt.Sprintf("(declare-const %s %s)", name, ghostSort(k)))
		st.ghost[k] = name
	}
	for i := range kinds {
		st.ghost[fmt.Sprintf("cnt:%d", i)] = "0"
	}
	v.c.trusted["call log: per-activation ghost record of the calls made by "+v.name+" ("+strings.Join(kinds, ", ")+"); calls made inside callees are not part of it"] = true
}

func (v *FnV) boxed1(st *State, val Value) string {
	if val.T == nil {
		return "nilval"
	}
	if isInterface(val.T) {
		return val.S
	}
	defer func() { recover() }()
	return v.c.toIface(val)
}

func (v *FnV) logCall(st *State, ci *callInfo, results []Value) {
	if st.ghost == nil || st.dead {
		return
	}
	kind := v.logKindOf(ci)
	if kind < 0 {
		return
	}
	n := st.ghost["lgN"]
	set := func(k, val string) {
		st.ghost[k] = st.define(k, ghostSort(k), sStore(st.ghost[k], n, val))
	}
	set("lgK", fmt.Sprint(kind))
	fn := "0"
	if ci.opaque {
		fn = ci.fv
	} else if ci.recv != nil && v.c.sortOf(ci.recv.T) == "Int" {
		fn = ci.recv.S
	} else if ci.recv != nil && isInterface(ci.recv.T) {
		fn = sx("vint", ci.recv.S) // the dynamic (pointer) value of an interface receiver
	}
	set("lgF", fn)
	idx := "(- 1)"
	if ci.idx != "" {
		idx = ci.idx
	}
	set("lgI", idx)
	if len(ci.args) > 0 {
		if b := v.boxed1(st, ci.args[0]); b != "" {
			set("lgA", b)
		}
	}
	if len(ci.args) > 1 {
		if b := v.boxed1(st, ci.args[1]); b != "" {
			set("lgB", b)
		}
	}
	if len(ci.args) > 2 {
		if b := v.boxed1(st, ci.args[2]); b != "" {
			set("lgD", b)
		}
	}
	if len(results) > 0 {
		if b := v.boxed1(st, results[0]); b != "" {
			set("lgR", b)
		}
		if b := v.boxed1(st, results[len(results)-1]); b != "" {
			set("lgE", b)
		}
	}
	st.ghost["lgN"] = st.define("lgN", "Int", sAdd(n, "1"))
	ck := fmt.Sprintf("cnt:%d", kind)
	st.ghost[ck] = st.define("lgC", "Int", sAdd(st.ghost[ck], "1"))
}

// havocLog: at a loop head whose body may log, the log is unknown except that it
// only grew (its old entries are kept).
func (v *FnV) havocLog(st *State) {
	if st.ghost == nil {
		return
	}
	oldN := st.ghost["lgN"]
	nn := v.c.freshName("lgN")
	st.declare(nn, "Int")
	st.assume(sLe(oldN, nn))
	st.ghost["lgN"] = nn
	for _, k := range []string{"lgK", "lgF", "lgI", "lgR", "lgE", "lgA", "lgB", "lgD"} {
		na := v.c.freshName(k)
		st.declare(na, ghostSort(k))
		st.axiom(fmt.Sprintf("(forall ((k!g Int)) (! (=> (< k!g %s) (= (select %s k!g) (select %s k!g))) :pattern ((select %s k!g))))", oldN, na, st.ghost[k], na))
		st.ghost[k] = na
	}
	for i := range v.logKinds {
		ck := fmt.Sprintf("cnt:%d", i)
		nc := v.c.freshName("lgC")
		st.declare(nc, "Int")
		st.assume(sLe(st.ghost[ck], nc))
		st.ghost[ck] = nc
	}
}

// spLog evaluates the log builtins of the contract language.
func (v *FnV) spLog(st *State, name string, e *SExpr, sc *Scope) (Value, bool) {
	switch name {
	case "ncallsof", "callis", "callfn", "callidx", "callarg", "callarg1", "callarg2", "callres", "callerr":
	default:
		return Value{}, false
	}
	if st.ghost == nil {
		sfail("%s: the function under verification has no `log` directive", name)
	}
	args := e.Args[1:]
	kindArg := func(i int) int {
		if i >= len(args) || args[i].Op != "str" {
			sfail("%s: kind name (string literal) expected", name)
		}
		k := v.logKind(args[i].Lit)
		if k < 0 {
			sfail("%s: %q is not in the log directive", name, args[i].Lit)
		}
		return k
	}
	if name == "ncallsof" {
		return Value{T: tInt, S: st.ghost[fmt.Sprintf("cnt:%d", kindArg(0))]}, true
	}
	if len(args) < 1 {
		sfail("%s: index expected", name)
	}
	k := v.sp(st, args[0], sc)
	anyT := types.Universe.Lookup("any").Type()
	switch name {
	case "callis":
		return Value{T: tBool, S: sEq(sSelect(st.ghost["lgK"], k.S), fmt.Sprint(kindArg(1)))}, true
	case "callfn":
		return Value{T: nil, S: sSelect(st.ghost["lgF"], k.S)}, true
	case "callidx":
		return Value{T: nil, S: sSelect(st.ghost["lgI"], k.S)}, true
	case "callarg":
		return Value{T: anyT, S: sSelect(st.ghost["lgA"], k.S)}, true
	case "callarg1":
		return Value{T: anyT, S: sSelect(st.ghost["lgB"], k.S)}, true
	case "callarg2":
		return Value{T: anyT, S: sSelect(st.ghost["lgD"], k.S)}, true
	case "callres":
		return Value{T: anyT, S: sSelect(st.ghost["lgR"], k.S)}, true
	case "callerr":
		return Value{T: anyT, S: sSelect(st.ghost["lgE"], k.S)}, true
	}
	return Value{}, false
}

// ---------- exit clauses ----------

func (v *FnV) exitClauses() []*Clause {
	var out []*Clause
	for _, l := range v.fc.Extra["exit"] {
		cl := &Clause{Kind: "exit", Text: l, Line: v.fc.Where}
		r := l
		if strings.HasPrefix(r, "[") {
			if k := strings.Index(r, "]"); k > 0 {
				cl.Label = r[1:k]
				r = strings.TrimSpace(r[k+1:])
			}
		}
		e, err := parseSpec(r)
		if err != nil {
			v.specError(cl, err)
			continue
		}
		cl.Expr, cl.Text = e, r
		out = append(out, cl)
	}
	// a literal's closure invariant must hold again at each of its returns
	for _, cl := range v.maintainsClauses(v.fc) {
		c2 := *cl
		c2.Label = "maintains:" + cl.Label
		out = append(out, &c2)
	}
	return out
}

func (v *FnV) checkExits(ex Exit, psc *Scope, ord int) {
	cls := v.exitClauses()
	if len(cls) == 0 {
		return
	}
	sc := *psc
	sc.pos = v.decl.Body.Rbrace
	sc.vars = map[string]Value{}
	for k, val := range psc.vars {
		sc.vars[k] = val
	}
	if len(ex.pre) > 0 {
		sc.vars["returned"] = ex.pre[0]
	}
	// parameters may have been reassigned: exit clauses see their final values through the
	// ordinary scope lookup, and their entry values through old()
	sig := v.frames[0].sig
	for i := 0; i < sig.Params().Len(); i++ {
		delete(sc.vars, sig.Params().At(i).Name())
	}
	for k, cl := range cls {
		st := ex.st.fork()
		val, err := v.spec(st, cl.Expr, &sc)
		if err != nil {
			v.specError(cl, err)
			continue
		}
		label := fmt.Sprintf("exit%d", k+1)
		if cl.Label != "" {
			label = "exit:" + cl.Label
		}
		ob := &Oblig{Name: fmt.Sprintf("%s#%s", v.name, label), Fn: v.name, Kind: "exit", Pos: v.pos(ex.node),
			Desc: fmt.Sprintf("exit %s (at return #%d)", cl.Text, ord), Params: v.params, ParamTs: v.paramTs}
		ob.SMT = v.script(st, val.S)
		v.obligs = append(v.obligs, ob)
		v.premiseCover(ex.st, cl, &sc, ob.Name)
	}
}

// ---------- noescape ----------

// noescapeParams: parameter names a contract declares as not escaping (the
// function only calls them, compares them with nil, or hands them to another
// non-escaping parameter).
func noescapeParams(fc *FuncContract) map[string]bool {
	m := map[string]bool{}
	if fc == nil {
		return m
	}
	for _, l := range fc.Extra["noescape"] {
		for _, f := range strings.Fields(l) {
			m[f] = true
		}
	}
	return m
}

// checkNoEscape is the (syntactic) obligation behind a noescape declaration.
func (v *FnV) checkNoEscape() {
	ne := noescapeParams(v.fc)
	if len(ne) == 0 {
		return
	}
	info := v.frames[0].pkg.TypesInfo
	sig := v.frames[0].sig
	for i := 0; i < sig.Params().Len(); i++ {
		p := sig.Params().At(i)
		if !ne[p.Name()] {
			continue
		}
		okUse := map[*ast.Ident]bool{}
		ast.Inspect(v.decl.Body, func(n ast.Node) bool {
			switch x := n.(type) {
			case *ast.CallExpr:
				if id, ok := unparen(x.Fun).(*ast.Ident); ok && info.Uses[id] == p {
					okUse[id] = true
				}
				// passed on in a non-escaping position of a callee under contract
				var fn *types.Func
				switch f := unparen(x.Fun).(type) {
				case *ast.Ident:
					fn, _ = info.Uses[f].(*types.Func)
				case *ast.SelectorExpr:
					if s, ok := info.Selections[f]; ok && s.Kind() == types.MethodVal {
						fn, _ = s.Obj().(*types.Func)
					} else if !ok {
						fn, _ = info.Uses[f.Sel].(*types.Func)
					}
				}
				if fn != nil {
					cne := noescapeParams(v.e.cs.Funcs[funcFullName(fn)])
					csig := fn.Type().(*types.Signature)
					for j, a := range x.Args {
						if id, ok := unparen(a).(*ast.Ident); ok && info.Uses[id] == p && j < csig.Params().Len() && cne[csig.Params().At(j).Name()] {
							okUse[id] = true
						}
					}
				}
			case *ast.BinaryExpr:
				if x.Op.String() == "==" || x.Op.String() == "!=" {
					for _, side := range []ast.Expr{x.X, x.Y} {
						if id, ok := unparen(side).(*ast.Ident); ok && info.Uses[id] == p {
							okUse[id] = true
						}
					}
				}
			}
			return true
		})
		bad := ""
		ast.Inspect(v.decl.Body, func(n ast.Node) bool {
			if id, ok := n.(*ast.Ident); ok && info.Uses[id] == p && !okUse[id] && bad == "" {
				bad = v.pos(id)
			}
			return true
		})
		ob := &Oblig{Name: fmt.Sprintf("%s#noescape:%s", v.name, p.Name()), Fn: v.name, Kind: "noescape", Pos: v.fc.Where,
			Desc: "parameter " + p.Name() + " is only called, compared with nil or passed on in a non-escaping position", Solver: "syntactic"}
		if bad == "" {
			ob.Quick, ob.Result = "unsat", "unsat"
		} else {
			ob.Quick, ob.Result, ob.Output = "sat", "sat", "parameter "+p.Name()+" escapes at "+bad
		}
		v.obligs = append(v.obligs, ob)
	}
}

// bindNoEscape: closures handed to a non-escaping parameter of a callee under
// contract may run during that call only: the variables they assign are unknown
// after the call but are not shared with later calls.
func (v *FnV) havocCaptured(st *State, a Value) bool {
	cr, ok := v.closures[a.S]
	if !ok {
		return false
	}
	v.closureInvariant(st, a, "before")
	for _, obj := range capturedAssigned(cr.lit, cr.frame.pkg.TypesInfo) {
		if v.boxed[obj] {
			continue
		}
		if cur, ok := st.env[obj]; ok {
			st.env[obj] = st.freshVal(obj.Name(), cur.T)
		}
	}
	v.closureInvariant(st, a, "after")
	return true
}

// loopMayLog: can one iteration of the loop append to the call log? Only calls
// that are certainly not logged (builtins, conversions, callees under a
// non-inline contract or with a stdlib model whose name is not a logged kind)
// are excluded.
func (v *FnV) loopMayLog(nodes []ast.Node) bool {
	may := false
	info := v.info()
	for _, n := range nodes {
		if n == nil {
			continue
		}
		ast.Inspect(n, func(n ast.Node) bool {
			call, ok := n.(*ast.CallExpr)
			if !ok || may {
				return !may
			}
			if tv, ok := info.Types[call.Fun]; ok && tv.IsType() {
				return true
			}
			if id, ok := unparen(call.Fun).(*ast.Ident); ok {
				if b, ok := info.Uses[id].(*types.Builtin); ok {
					if b.Name() == "append" && len(call.Args) > 0 {
						if a0, ok := unparen(call.Args[0]).(*ast.Ident); ok && v.logKind("append:"+a0.Name) >= 0 {
							may = true
							return false
						}
					}
					return true
				}
			}
			fn, _, _ := v.callee(call)
			if fn == nil {
				may = true
				return false
			}
			full := funcFullName(fn)
			if v.logKindOf(&callInfo{full: full}) >= 0 {
				may = true
				return false
			}
			if fc, ok := v.e.cs.Funcs[full]; ok && !fc.Inline {
				return true
			}
			if _, ok := stdModels[full]; ok {
				return true
			}
			if sig, ok := fn.Type().(*types.Signature); ok && sig.Recv() != nil && isInterface(sig.Recv().Type()) {
				return true // havocked interface call that is not a logged kind
			}
			if decl := v.e.decls[full]; decl == nil || decl.Body == nil {
				return true // external function without body: havocked, not logged
			}
			may = true // may be inlined: its body could contain logged calls
			return false
		})
	}
	return may
}
