package main

import (
	"fmt"
)

func (e *Engine) findLemma(pkgPath, name string) *Lemma {
	if l, ok := e.cs.Lemmas[pkgPath+"."+name]; ok {
		return l
	}
	for _, l := range e.cs.Lemmas {
		if l.Name == name {
			return l
		}
	}
	return nil
}

// applyLemma assumes the instance "requires ==> ensures" of a lemma or axiom at
// the arguments given in the apply clause (a universally quantified fact may be
// instantiated anywhere; no obligation arises).
func (v *FnV) applyLemma(st *State, cl *Clause, sc *Scope) error {
	call := cl.Expr
	if call == nil || call.Op != "call" || call.Args[0].Op != "ident" {
		return fmt.Errorf("apply needs a lemma call, got %q", cl.Text)
	}
	lm := v.e.findLemma(sc.pkg.PkgPath, call.Args[0].Name)
	if lm == nil {
		return fmt.Errorf("unknown lemma %s", call.Args[0].Name)
	}
	if len(call.Args)-1 != len(lm.Params) {
		return fmt.Errorf("lemma %s: wrong number of arguments", lm.Name)
	}
	if lm.Axiom {
		v.c.trusted["axiom "+shortName(lm.Pkg)+"."+lm.Name+" (assumed, not proved)"] = true
	}
	tpkg := v.e.pkgs[lm.Pkg]
	tv := map[string]Value{}
	for i, p := range lm.Params {
		a, err := v.spec(st, call.Args[i+1], sc)
		if err != nil {
			return err
		}
		pt, err := v.specType(lm.PTypes[i], tpkg)
		if err != nil {
			return err
		}
		a = v.specConv(st, a, pt)
		if pt == nil {
			a.T = nil
		}
		tv[p] = a
	}
	tsc := &Scope{v: v, vars: tv, pkg: tpkg, callee: true}
	var reqs, enss []string
	for _, c := range lm.Requires {
		val, err := v.spec(st, c.Expr, tsc)
		if err != nil {
			return err
		}
		reqs = append(reqs, val.S)
	}
	for _, c := range lm.Ensures {
		val, err := v.spec(st, c.Expr, tsc)
		if err != nil {
			return err
		}
		enss = append(enss, val.S)
	}
	st.assume(sImp(sAnd(reqs...), sAnd(enss...)))
	return nil
}

// applyAt instantiates the apply clauses registered for loop ordinal ord (0 = function entry).
func (v *FnV) applyAt(st *State, ord int, sc *Scope) {
	if len(v.frames) > 1 {
		return
	}
	for _, cl := range v.fc.Applies {
		if cl.Loop != ord {
			continue
		}
		if err := v.applyLemma(st, cl, sc); err != nil {
			v.specError(cl, err)
		}
	}
}

// sexprKey is a structural key of a spec expression.
func sexprKey(e *SExpr) string {
	if e == nil {
		return "_"
	}
	s := e.Op + ":" + e.Name + ":" + e.Lit + ":" + e.VType + "("
	for _, a := range e.Args {
		s += sexprKey(a) + ","
	}
	return s + ")"
}

func mentionsIdent(e *SExpr, name string) bool {
	if e == nil {
		return false
	}
	if e.Op == "ident" && e.Name == name {
		return true
	}
	for _, a := range e.Args {
		if mentionsIdent(a, name) {
			return true
		}
	}
	return false
}

// uniformIndexBase returns the sequence expression X if every index expression
// whose index is exactly the identifier k has the same base X (not mentioning
// k), and there is at least one such; otherwise nil.
func uniformIndexBase(body *SExpr, k string) *SExpr {
	var base *SExpr
	ok := true
	var walk func(e *SExpr)
	walk = func(e *SExpr) {
		if e == nil || !ok {
			return
		}
		if (e.Op == "forall" || e.Op == "exists") && len(e.Vars) > 0 {
			for _, v := range e.Vars {
				if v == k {
					return // shadowed
				}
			}
		}
		if e.Op == "index" && e.Args[1] != nil && e.Args[1].Op == "ident" && e.Args[1].Name == k {
			if mentionsIdent(e.Args[0], k) {
				ok = false
				return
			}
			if base == nil {
				base = e.Args[0]
			} else if sexprKey(base) != sexprKey(e.Args[0]) {
				ok = false
				return
			}
		}
		for _, a := range e.Args {
			walk(a)
		}
	}
	walk(body)
	if !ok {
		return nil
	}
	return base
}
