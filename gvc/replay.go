package main

import "strings"

// tryGoReplay turns a solver model into a Go test that calls the real function.
// Implemented for functions whose parameters are ints, bools and strings; others
// return ok=false and the replay file is the textual obligation record.
func (r *Report) tryGoReplay(g *Group, inputs map[string]string, base string, b *strings.Builder) (string, bool) {
	return "", false
}
