package main

import (
	"bytes"
	"encoding/json"
	"fmt"
	"go/types"
	"math/big"
	"os"
	"os/exec"
	"path/filepath"
	"regexp"
	"strconv"
	"strings"
)

// ReplayInfo is what is needed to call the real function with model values.
type ReplayInfo struct {
	PkgName  string
	PkgPath  string
	PkgDir   string // relative to repo root
	Func     string // function name (no receiver support yet)
	Method   bool
	Params   []string // names
	Terms    []string // SMT terms
	Types    []types.Type
	Results  []string // names bound to the call results
	Clause   *SExpr   // violated postcondition (nil for panic-freedom obligations)
	Requires []*SExpr
	TagTypes map[int]types.Type
}

// stripQuantified removes quantified assertions so that a solver can return a candidate model.
func stripQuantified(smt string) string {
	var out []string
	for _, l := range strings.Split(smt, "\n") {
		if strings.HasPrefix(l, "(assert (forall") || strings.HasPrefix(l, "(assert (! (forall") {
			continue
		}
		if strings.HasPrefix(l, "(define-fun str_eq") {
			// candidate models only: compare lengths and the first 8 bytes
			out = append(out, "(define-fun str_eq ((a Str) (b Str)) Bool (and (= (slen a) (slen b)) (=> (> (slen a) 0) (= (sat a 0) (sat b 0))) (=> (> (slen a) 1) (= (sat a 1) (sat b 1))) (=> (> (slen a) 2) (= (sat a 2) (sat b 2))) (=> (> (slen a) 3) (= (sat a 3) (sat b 3)))))")
			continue
		}
		out = append(out, l)
	}
	return strings.Join(out, "\n")
}

func runZ3(script string, sec int) string {
	f, err := os.CreateTemp("", "gvcm*.smt2")
	if err != nil {
		return ""
	}
	defer os.Remove(f.Name())
	f.WriteString(script)
	f.Close()
	cmd := exec.Command("z3-new", fmt.Sprintf("-T:%d", sec), f.Name())
	var buf bytes.Buffer
	cmd.Stdout = &buf
	cmd.Stderr = &buf
	cmd.Run()
	return buf.String()
}

// getValues asks for the values of terms in a model of script. Returns nil if not sat.
func getValues(script string, terms []string) []string {
	if len(terms) == 0 {
		return nil
	}
	s := strings.Replace(script, "(get-model)", "", -1)
	var b strings.Builder
	b.WriteString(s)
	for _, t := range terms {
		b.WriteString("(get-value (" + t + "))\n")
	}
	out := runZ3(b.String(), 8)
	lines := strings.SplitN(out, "\n", 2)
	if len(lines) < 2 || strings.TrimSpace(lines[0]) != "sat" {
		if os.Getenv("GVC_DEBUG") != "" {
			fmt.Fprintf(os.Stderr, "getValues: not sat: %s\n", truncate(out, 300))
		}
		return nil
	}
	if os.Getenv("GVC_DEBUG") != "" {
		fmt.Fprintf(os.Stderr, "getValues: %s\n", truncate(out, 1500))
	}
	// each get-value answer is one s-expression ((term value)); split top-level
	var vals []string
	rest := lines[1]
	for len(vals) < len(terms) {
		rest = strings.TrimLeft(rest, " \n\t")
		if rest == "" || rest[0] != '(' {
			return nil
		}
		depth, end := 0, -1
		for i := 0; i < len(rest); i++ {
			if rest[i] == '(' {
				depth++
			} else if rest[i] == ')' {
				depth--
				if depth == 0 {
					end = i
					break
				}
			}
		}
		if end < 0 {
			return nil
		}
		ans := rest[:end+1]
		rest = rest[end+1:]
		// strip "((term " prefix: value is the last top-level element inside the inner list
		inner := strings.TrimSpace(ans[1 : len(ans)-1]) // (term value)
		inner = inner[1 : len(inner)-1]
		vals = append(vals, lastSexp(inner))
	}
	return vals
}

func lastSexp(s string) string {
	s = strings.TrimSpace(s)
	if s == "" {
		return ""
	}
	if s[len(s)-1] != ')' {
		k := strings.LastIndexAny(s, " \n\t")
		return s[k+1:]
	}
	depth := 0
	for i := len(s) - 1; i >= 0; i-- {
		if s[i] == ')' {
			depth++
		} else if s[i] == '(' {
			depth--
			if depth == 0 {
				return s[i:]
			}
		}
	}
	return s
}

func parseSMTInt(s string) (*big.Int, bool) {
	s = strings.TrimSpace(s)
	if n, ok := litInt(s); ok {
		return n, true
	}
	if strings.HasPrefix(s, "(-") {
		inner := strings.TrimSpace(s[2 : len(s)-1])
		if n, ok := litInt(inner); ok {
			return n.Neg(n), true
		}
	}
	return nil, false
}

var fpRe = regexp.MustCompile(`\(fp #b([01]) #b([01]+) #x([0-9a-fA-F]+)\)`)

func parseSMTFloatBits(s string) (uint64, bool) {
	s = strings.TrimSpace(s)
	if m := fpRe.FindStringSubmatch(s); m != nil {
		sign, _ := strconv.ParseUint(m[1], 2, 64)
		exp, _ := strconv.ParseUint(m[2], 2, 64)
		man, _ := strconv.ParseUint(m[3], 16, 64)
		return sign<<63 | exp<<52 | man, true
	}
	switch {
	case strings.Contains(s, "+zero"):
		return 0, true
	case strings.Contains(s, "-zero"):
		return 1 << 63, true
	case strings.Contains(s, "+oo"):
		return 0x7FF0000000000000, true
	case strings.Contains(s, "-oo"):
		return 0xFFF0000000000000, true
	case strings.Contains(s, "NaN"):
		return 0x7FF8000000000001, true
	}
	return 0, false
}

// goLiteral renders the model value of one parameter as a Go expression.
func (ri *ReplayInfo) goLiterals(script string) ([]string, bool) {
	// pass 1: scalar projections
	var q []string
	for i, t := range ri.Types {
		term := ri.Terms[i]
		switch {
		case isIntType(t), isBoolType(t), isFloatType(t):
			q = append(q, term)
		case isString(t):
			q = append(q, sx("slen", term))
		case isInterface(t):
			q = append(q, sx("vtag", term), sx("vint", term), sx("vbool", term), sx("vfp", term), sx("slen", sx("vstr", term)))
		default:
			return nil, false
		}
	}
	vals := getValues(script, q)
	if vals == nil {
		return nil, false
	}
	// pass 2: string bytes
	type strReq struct {
		term string
		n    int
	}
	var reqs []strReq
	var q2 []string
	k := 0
	lens := map[int]int{}
	for i, t := range ri.Types {
		term := ri.Terms[i]
		switch {
		case isIntType(t), isBoolType(t), isFloatType(t):
			k++
		case isString(t):
			n, ok := parseSMTInt(vals[k])
			if !ok || !n.IsInt64() || n.Int64() > 4096 {
				return nil, false
			}
			lens[i] = int(n.Int64())
			reqs = append(reqs, strReq{term, int(n.Int64())})
			k++
		case isInterface(t):
			n, ok := parseSMTInt(vals[k+4])
			if !ok || !n.IsInt64() {
				return nil, false
			}
			if n.Int64() > 4096 || n.Int64() < 0 {
				// only relevant when the dynamic type is string; checked below
				n.SetInt64(0)
			}
			lens[i] = int(n.Int64())
			reqs = append(reqs, strReq{sx("vstr", term), int(n.Int64())})
			k += 5
		}
	}
	for _, r := range reqs {
		q2 = append(q2, sx("slen", r.term))
		for j := 0; j < r.n; j++ {
			q2 = append(q2, sx("sat", r.term, fmt.Sprint(j)))
		}
	}
	// one combined query so that all values come from the same model
	all := getValues(script, append(append([]string{}, q...), q2...))
	if all == nil {
		return nil, false
	}
	vals = all[:len(q)]
	bytesVals := all[len(q):]
	strOf := func(n int) (string, bool) {
		// consume slen + n bytes from bytesVals
		if len(bytesVals) < 1 {
			return "", false
		}
		ln, ok := parseSMTInt(bytesVals[0])
		if !ok || (int(ln.Int64()) != n && n != 0) {
			return "", false // model changed between queries
		}
		bs := make([]byte, n)
		for j := 0; j < n; j++ {
			b, ok := parseSMTInt(bytesVals[1+j])
			if !ok {
				return "", false
			}
			bs[j] = byte(b.Int64() & 255)
		}
		bytesVals = bytesVals[1+n:]
		return strconv.Quote(string(bs)), true
	}
	var lits []string
	k = 0
	for i, t := range ri.Types {
		ts := types.TypeString(t, func(p *types.Package) string {
			if p.Name() == ri.PkgName {
				return ""
			}
			return p.Name()
		})
		ts = strings.TrimPrefix(ts, ".")
		switch {
		case isIntType(t):
			n, ok := parseSMTInt(vals[k])
			if !ok {
				return nil, false
			}
			lits = append(lits, fmt.Sprintf("%s(%s)", ts, n.String()))
			k++
		case isBoolType(t):
			lits = append(lits, strings.TrimSpace(vals[k]))
			k++
		case isFloatType(t):
			bits, ok := parseSMTFloatBits(vals[k])
			if !ok {
				return nil, false
			}
			lits = append(lits, fmt.Sprintf("%s(math.Float64frombits(0x%x))", ts, bits))
			k++
		case isString(t):
			s, ok := strOf(lens[i])
			if !ok {
				return nil, false
			}
			lits = append(lits, fmt.Sprintf("%s(%s)", ts, s))
			k++
		case isInterface(t):
			tag, ok := parseSMTInt(vals[k])
			if !ok {
				return nil, false
			}
			s, ok2 := strOf(lens[i])
			if !ok2 {
				return nil, false
			}
			if tag.Sign() == 0 {
				lits = append(lits, "nil")
				k += 5
				continue
			}
			dt := ri.TagTypes[int(tag.Int64())]
			if dt == nil {
				return nil, false
			}
			dts := types.TypeString(dt, func(p *types.Package) string {
				if p.Name() == ri.PkgName {
					return ""
				}
				return p.Name()
			})
			switch {
			case isIntType(dt):
				n, ok := parseSMTInt(vals[k+1])
				if !ok {
					return nil, false
				}
				lits = append(lits, fmt.Sprintf("any(%s(%s))", dts, n.String()))
			case isBoolType(dt):
				lits = append(lits, fmt.Sprintf("any(%s(%s))", dts, strings.TrimSpace(vals[k+2])))
			case isFloatType(dt):
				bits, ok := parseSMTFloatBits(vals[k+3])
				if !ok {
					return nil, false
				}
				lits = append(lits, fmt.Sprintf("any(%s(math.Float64frombits(0x%x)))", dts, bits))
			case isString(dt):
				lits = append(lits, fmt.Sprintf("any(%s(%s))", dts, s))
			default:
				return nil, false
			}
			k += 5
		}
	}
	return lits, true
}

// goTr translates quantifier-free spec expressions to Go source.
type goTr struct {
	specs func(name string) *SpecFn
	sub   map[string]string
	depth int
}

func (g *goTr) expr(e *SExpr) (string, bool) {
	switch e.Op {
	case "lit":
		return e.Lit, true
	case "str":
		return strconv.Quote(e.Lit), true
	case "ident":
		if r, ok := g.sub[e.Name]; ok {
			return r, true
		}
		switch e.Name {
		case "MaxInt":
			return "math.MaxInt", true
		case "MinInt":
			return "math.MinInt", true
		case "RuneError":
			return "utf8.RuneError", true
		}
		return e.Name, true
	case "un":
		a, ok := g.expr(e.Args[0])
		return "(" + e.Name + a + ")", ok
	case "bin":
		a, ok1 := g.expr(e.Args[0])
		b, ok2 := g.expr(e.Args[1])
		if !ok1 || !ok2 {
			return "", false
		}
		switch e.Name {
		case "==>":
			return "(!(" + a + ") || (" + b + "))", true
		case "<==>":
			return "((" + a + ") == (" + b + "))", true
		case "===":
			return "(" + a + " == " + b + ")", true
		}
		return "(" + a + " " + e.Name + " " + b + ")", true
	case "ite":
		c, ok1 := g.expr(e.Args[0])
		a, ok2 := g.expr(e.Args[1])
		b, ok3 := g.expr(e.Args[2])
		// lazy branches: the untaken branch may index out of range
		ty := g.guessType(e.Args[1])
		if ty == "int" {
			ty = g.guessType(e.Args[2])
		}
		return "func() " + ty + " { if " + c + " { return " + a + " }; return " + b + " }()", ok1 && ok2 && ok3
	case "field":
		a, ok := g.expr(e.Args[0])
		return a + "." + e.Name, ok
	case "index":
		a, ok1 := g.expr(e.Args[0])
		b, ok2 := g.expr(e.Args[1])
		return a + "[" + b + "]", ok1 && ok2
	case "slice":
		a, ok := g.expr(e.Args[0])
		lo, hi := "", ""
		if e.Args[1] != nil {
			var ok1 bool
			lo, ok1 = g.expr(e.Args[1])
			ok = ok && ok1
		}
		if e.Args[2] != nil {
			var ok2 bool
			hi, ok2 = g.expr(e.Args[2])
			ok = ok && ok2
		}
		return a + "[" + lo + ":" + hi + "]", ok
	case "assert":
		a, ok := g.expr(e.Args[0])
		return "verifAs[" + e.VType + "](" + a + ")", ok
	case "call":
		if e.Args[0].Op != "ident" {
			return "", false
		}
		name := e.Args[0].Name
		var as []string
		for _, a := range e.Args[1:] {
			if a.Op == "type" {
				as = append(as, a.VType)
				continue
			}
			x, ok := g.expr(a)
			if !ok {
				return "", false
			}
			as = append(as, x)
		}
		switch name {
		case "len", "cap":
			return name + "(" + as[0] + ")", true
		case "old":
			return as[0], true
		case "istype":
			return "verifIs[" + as[1] + "](" + as[0] + ")", true
		case "runeat":
			return "verifRuneAt(" + as[0] + ", " + as[1] + ")", true
		case "sizeat":
			return "verifSizeAt(" + as[0] + ", " + as[1] + ")", true
		case "lastrune":
			return "verifLastRune(" + as[0] + ", " + as[1] + ")", true
		case "lastsize":
			return "verifLastSize(" + as[0] + ", " + as[1] + ")", true
		case "sindex":
			return "strings.Index(" + as[0] + ", " + as[1] + ")", true
		case "atoi_ok":
			return "verifAtoiOK(" + as[0] + ")", true
		case "atoi_val":
			return "verifAtoiVal(" + as[0] + ")", true
		case "isnan":
			return "math.IsNaN(" + as[0] + ")", true
		case "nl":
			return "verifNL(" + as[0] + ", " + as[1] + ", " + as[2] + ")", true
		}
		if g.specs != nil && g.depth < 12 {
			if sf := g.specs(name); sf != nil && sf.Body != nil && !sf.Rec && len(sf.Params) == len(as) {
				sub := map[string]string{}
				for i, p := range sf.Params {
					sub[p] = "(" + as[i] + ")"
				}
				inner := &goTr{specs: g.specs, sub: sub, depth: g.depth + 1}
				return inner.expr(sf.Body)
			}
		}
	}
	return "", false
}

const replayHelpers = `
func verifIte(c bool, a, b func() any) any {
	if c {
		return a()
	}
	return b()
}

func verifAs[T any](v any) T { x, _ := v.(T); return x }
func verifIs[T any](v any) bool { _, ok := v.(T); return ok }
func verifRuneAt(s string, i int) rune {
	if i < 0 || i > len(s) {
		return utf8.RuneError
	}
	r, _ := utf8.DecodeRuneInString(s[i:])
	return r
}
func verifSizeAt(s string, i int) int {
	if i < 0 || i > len(s) {
		return 0
	}
	_, z := utf8.DecodeRuneInString(s[i:])
	return z
}
func verifLastRune(s string, i int) rune {
	if i < 0 || i > len(s) {
		return utf8.RuneError
	}
	r, _ := utf8.DecodeLastRuneInString(s[:i])
	return r
}
func verifLastSize(s string, i int) int {
	if i < 0 || i > len(s) {
		return 0
	}
	_, z := utf8.DecodeLastRuneInString(s[:i])
	return z
}
func verifNL(s string, a, c int) int {
	if a < 0 {
		a = 0
	}
	if c > len(s) {
		c = len(s)
	}
	if a >= c {
		return 0
	}
	return strings.Count(s[a:c], "\n")
}
func verifAtoiOK(s string) bool { _, err := strconv.Atoi(s); return err == nil }
func verifAtoiVal(s string) int { v, _ := strconv.Atoi(s); return v }
`

func (r *Report) tryGoReplay(g *Group, inputs map[string]string, base string, b *strings.Builder) (string, bool) {
	ob := g.Fail
	ri := ob.Replay
	if ri == nil || ri.Method || ob.SMT == "" {
		fmt.Fprintf(b, "\nreplay: not attempted (receiver/parameter types outside the replayable subset)\n")
		return "", false
	}
	script := ob.SMT
	flat, assemble, fok := ri.flattenParams(r.eng.ctx)
	if !fok {
		fmt.Fprintf(b, "\nreplay: not attempted (parameter types outside the replayable subset)\n")
		return "", false
	}
	// prefer small witnesses: bound string lengths and integer magnitudes first
	var small []string
	for i, t := range flat.Types {
		switch {
		case isString(t):
			small = append(small, fmt.Sprintf("(assert (<= (slen %s) 24))", flat.Terms[i]))
		case isInterface(t):
			small = append(small, fmt.Sprintf("(assert (<= (slen (vstr %s)) 24))", flat.Terms[i]))
		}
	}
	withSmall := func(s string) string {
		k := strings.LastIndex(s, "(check-sat)")
		if k < 0 || len(small) == 0 {
			return s
		}
		return s[:k] + strings.Join(small, "\n") + "\n" + s[k:]
	}
	lits, ok := flat.goLiterals(withSmall(script))
	if !ok {
		lits, ok = flat.goLiterals(withSmall(stripQuantified(script)))
		if ok {
			fmt.Fprintf(b, "\nreplay: inputs come from a candidate model of the quantifier-free relaxation of the VC\n")
		}
	}
	if !ok {
		// candidate model from the quantifier-free relaxation
		lits, ok = flat.goLiterals(stripQuantified(script))
		if ok {
			fmt.Fprintf(b, "\nreplay: inputs come from a candidate model of the quantifier-free relaxation of the VC\n")
		}
	}
	if !ok {
		fmt.Fprintf(b, "\nreplay: the solvers returned no model (quantified goal or timeout)\n")
		return "", false
	}
	lits = assemble(lits)
	var src strings.Builder
	fmt.Fprintf(&src, "// gvc-replay pkgdir=%s run=TestVerifReplay\n// Generated by gvc from the counterexample of obligation %s (%s).\n", ri.PkgDir, g.Name, ob.Desc)
	fmt.Fprintf(&src, "package %s\n\nimport (\n\t\"math\"\n\t\"strconv\"\n\t\"strings\"\n\t\"testing\"\n\t\"unicode/utf8\"\n)\n\nvar _ = math.MaxInt\nvar _ = utf8.RuneError\nvar _ = strings.Index\nvar _ = strconv.Atoi\n", ri.PkgName)
	src.WriteString(replayHelpers)
	src.WriteString("\n")
	fmt.Fprintf(&src, "func TestVerifReplay(t *testing.T) {\n")
	for i, p := range ri.Params {
		fmt.Fprintf(&src, "\t%s := %s\n\t_ = %s\n", p, lits[i], p)
	}
	call := ri.Func + "(" + strings.Join(ri.Params, ", ") + ")"
	if len(ri.Results) > 0 {
		fmt.Fprintf(&src, "\t%s := %s\n", strings.Join(ri.Results, ", "), call)
		for _, rn := range ri.Results {
			fmt.Fprintf(&src, "\t_ = %s\n", rn)
		}
	} else {
		fmt.Fprintf(&src, "\t%s\n", call)
	}
	expectPanicOnly := ri.Clause == nil
	if !expectPanicOnly {
		tr := &goTr{specs: func(n string) *SpecFn { return r.eng.lookupSpec(r.eng.pkgs[ri.PkgPath], n) }}
		ge, ok := tr.expr(ri.Clause)
		if !ok {
			fmt.Fprintf(b, "\nreplay: the violated clause uses quantifiers/spec functions and cannot be evaluated at run time; inputs: %s\n", strings.Join(lits, ", "))
			return "", false
		}
		fmt.Fprintf(&src, "\tif !(%s) {\n\t\tt.Fatalf(\"obligation %s violated: %s\")\n\t}\n", ge, g.Name, strings.ReplaceAll(ri.Clause.String(), "\"", "'"))
	}
	fmt.Fprintf(&src, "}\n")
	gopath := base + "_test.go"
	os.WriteFile(gopath, []byte(src.String()), 0o644)
	// run it against the real code
	dst := filepath.Join(r.repo, ri.PkgDir, "zz_verif_replay_test.go")
	ov, _ := json.Marshal(map[string]any{"Replace": map[string]string{dst: gopath}})
	ovPath := base + ".overlay.json"
	os.WriteFile(ovPath, ov, 0o644)
	cmd := exec.Command("go", "test", "-tags=verif", "-overlay", ovPath, "-vet=off", "-count=1", "-timeout", "60s", "-run", "^TestVerifReplay$", "./"+ri.PkgDir)
	cmd.Dir = r.repo
	cmd.Env = append(os.Environ(), "GOFLAGS=-mod=mod", "GOPROXY=off", "GOSUMDB=off", "GOTOOLCHAIN=local")
	out, err := cmd.CombinedOutput()
	fmt.Fprintf(b, "\nreplay inputs: %s\nreplay test: %s\nreplay output:\n%s\n", strings.Join(lits, ", "), gopath, truncate(string(out), 3000))
	os.Remove(ovPath)
	if err != nil && (strings.Contains(string(out), "--- FAIL") || strings.Contains(string(out), "panic:")) {
		fmt.Fprintf(b, "replay: REPRODUCED on the real code\n")
		return gopath, true
	}
	fmt.Fprintf(b, "replay: not reproduced on the real code with these inputs\n")
	return "", false
}
