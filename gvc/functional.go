package main

import (
	"fmt"
	"go/types"
	"strings"
)

// functionalApp models result #i of a function whose contract says
// "functional" as an uninterpreted function of (receiver, arguments): the
// function is assumed to be deterministic and independent of mutable state.
// The assumption is listed in the evidence.
func (v *FnV) functionalApp(fc *FuncContract, i int, rt types.Type, args []Value) string {
	sym := fmt.Sprintf("fnl!%s!%d", mangle(shortName(fc.FullName())), i)
	var sorts, terms []string
	for _, a := range args {
		sorts = append(sorts, v.c.sortOf(a.T))
		terms = append(terms, a.S)
	}
	v.c.glob("functional:"+sym, fmt.Sprintf("(declare-fun %s (%s) %s)", sym, strings.Join(sorts, " "), v.c.sortOf(rt)))
	v.c.trusted[shortName(fc.FullName())+" is treated as a deterministic, state-independent function of its arguments (functional)"] = true
	if len(terms) == 0 {
		return sym
	}
	return sx(sym, terms...)
}

// functionalSpecCall lets a contract mention a functional Go function by name:
// f(args) or pkg.Type.Method(recv, args).
func (v *FnV) functionalSpecCall(st *State, name string, args []Value, sc *Scope) (Value, bool) {
	var fc *FuncContract
	if sc.pkg != nil {
		fc = v.e.cs.Funcs[sc.pkg.PkgPath+"."+name]
	}
	if fc == nil {
		// qualified by package name: diag.Ranger.Range
		if k := strings.Index(name, "."); k > 0 {
			for path, p := range v.e.pkgs {
				if p.Name == name[:k] {
					if c, ok := v.e.cs.Funcs[path+"."+name[k+1:]]; ok {
						fc = c
					}
				}
			}
		}
	}
	if fc == nil {
		return Value{}, false
	}
	if _, ok := fc.Extra["functional"]; !ok {
		return Value{}, false
	}
	// result type: from the declaration or the interface method
	rt := v.e.resultType(fc)
	if rt == nil {
		sfail("functional %s: cannot determine result type", name)
	}
	// convert arguments to the parameter types so that sorts agree with call sites
	pts := v.e.paramTypes(fc)
	for i := range args {
		if i < len(pts) && pts[i] != nil {
			if args[i].T == nil {
				args[i] = v.specConv(st, args[i], pts[i])
			} else if isInterface(pts[i]) && !isInterface(args[i].T) {
				args[i] = Value{T: pts[i], S: v.c.toIface(args[i])}
			}
		}
	}
	return Value{T: rt, S: v.functionalApp(fc, 0, rt, args)}, true
}

func (e *Engine) lookupFuncObj(fc *FuncContract) *types.Func {
	full := fc.FullName()
	if d := e.decls[full]; d != nil {
		if o, ok := e.declPkg[full].TypesInfo.Defs[d.Name].(*types.Func); ok {
			return o
		}
	}
	// interface method: Pkg.Type.Method
	p := e.pkgs[fc.Pkg]
	parts := strings.Split(fc.Name, ".")
	if p != nil && len(parts) == 1 {
		// a named function type: the "function" is a call of a value of that type, which is the first argument
		if tn, ok := p.Types.Scope().Lookup(parts[0]).(*types.TypeName); ok {
			if sig, ok := tn.Type().Underlying().(*types.Signature); ok {
				params := []*types.Var{types.NewVar(0, p.Types, "fn", tn.Type())}
				for i := 0; i < sig.Params().Len(); i++ {
					params = append(params, sig.Params().At(i))
				}
				nsig := types.NewSignatureType(nil, nil, nil, types.NewTuple(params...), sig.Results(), false)
				return types.NewFunc(0, p.Types, parts[0], nsig)
			}
		}
	}
	if p == nil || len(parts) != 2 {
		return nil
	}
	tn, ok := p.Types.Scope().Lookup(parts[0]).(*types.TypeName)
	if !ok {
		return nil
	}
	obj, _, _ := types.LookupFieldOrMethod(tn.Type(), true, p.Types, parts[1])
	f, _ := obj.(*types.Func)
	return f
}

func (e *Engine) resultType(fc *FuncContract) types.Type {
	f := e.lookupFuncObj(fc)
	if f == nil {
		return nil
	}
	sig := f.Type().(*types.Signature)
	if sig.Results().Len() == 0 {
		return nil
	}
	return sig.Results().At(0).Type()
}

func (e *Engine) paramTypes(fc *FuncContract) []types.Type {
	f := e.lookupFuncObj(fc)
	if f == nil {
		return nil
	}
	sig := f.Type().(*types.Signature)
	var out []types.Type
	if sig.Recv() != nil {
		out = append(out, sig.Recv().Type())
	}
	for i := 0; i < sig.Params().Len(); i++ {
		out = append(out, sig.Params().At(i).Type())
	}
	return out
}
