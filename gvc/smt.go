package main

import (
	"fmt"
	"math/big"
	"strings"
)

// Tiny s-expression helpers. Terms are plain strings.

func sx(op string, args ...string) string {
	return "(" + op + " " + strings.Join(args, " ") + ")"
}

func sAnd(xs ...string) string {
	var ys []string
	for _, x := range xs {
		if x == "true" {
			continue
		}
		if x == "false" {
			return "false"
		}
		ys = append(ys, x)
	}
	switch len(ys) {
	case 0:
		return "true"
	case 1:
		return ys[0]
	}
	return sx("and", ys...)
}

func sOr(xs ...string) string {
	var ys []string
	for _, x := range xs {
		if x == "false" {
			continue
		}
		if x == "true" {
			return "true"
		}
		ys = append(ys, x)
	}
	switch len(ys) {
	case 0:
		return "false"
	case 1:
		return ys[0]
	}
	return sx("or", ys...)
}

func sNot(x string) string {
	switch x {
	case "true":
		return "false"
	case "false":
		return "true"
	}
	if strings.HasPrefix(x, "(not ") && balancedOne(x[5:len(x)-1]) {
		return x[5 : len(x)-1]
	}
	return sx("not", x)
}

// balancedOne reports whether s is a single balanced s-expression or atom.
func balancedOne(s string) bool {
	if s == "" {
		return false
	}
	if s[0] != '(' {
		return !strings.ContainsAny(s, " ()")
	}
	depth := 0
	for i := 0; i < len(s); i++ {
		switch s[i] {
		case '(':
			depth++
		case ')':
			depth--
			if depth == 0 && i != len(s)-1 {
				return false
			}
		}
	}
	return depth == 0
}

func sImp(a, b string) string {
	if a == "true" {
		return b
	}
	if a == "false" || b == "true" {
		return "true"
	}
	return sx("=>", a, b)
}

func sIte(c, a, b string) string {
	if c == "true" {
		return a
	}
	if c == "false" {
		return b
	}
	if a == b {
		return a
	}
	return sx("ite", c, a, b)
}

func sEq(a, b string) string {
	if a == b {
		return "true"
	}
	return sx("=", a, b)
}

func sInt(n int64) string {
	if n < 0 {
		// careful with MinInt64
		b := new(big.Int).SetInt64(n)
		b.Neg(b)
		return "(- " + b.String() + ")"
	}
	return fmt.Sprintf("%d", n)
}

func sBig(n *big.Int) string {
	if n.Sign() < 0 {
		return "(- " + new(big.Int).Neg(n).String() + ")"
	}
	return n.String()
}

func sAdd(a, b string) string {
	if b == "0" {
		return a
	}
	if a == "0" {
		return b
	}
	return sx("+", a, b)
}

func sSub(a, b string) string {
	if b == "0" {
		return a
	}
	return sx("-", a, b)
}

func sLe(a, b string) string { return sx("<=", a, b) }
func sLt(a, b string) string { return sx("<", a, b) }
func sGe(a, b string) string { return sx(">=", a, b) }
func sGt(a, b string) string { return sx(">", a, b) }

// sSelect builds (select a i), resolving reads of literal indices through
// stores at literal indices: (select (store a 1 v) 1) = v, (select (store a 1 v) 2) = (select a 2).
func sSelect(a, i string) string {
	if isNumeral(i) {
		for depth := 0; depth < 64; depth++ {
			arr, idx, val, ok := splitStore(a)
			if !ok || !isNumeral(idx) {
				break
			}
			if idx == i {
				return val
			}
			a = arr
		}
	}
	return sx("select", a, i)
}

func isNumeral(s string) bool {
	if s == "" {
		return false
	}
	for _, r := range s {
		if r < '0' || r > '9' {
			return false
		}
	}
	return true
}

// splitStore parses "(store A I V)" into its three arguments.
func splitStore(s string) (arr, idx, val string, ok bool) {
	if !strings.HasPrefix(s, "(store ") || !strings.HasSuffix(s, ")") {
		return
	}
	body := s[7 : len(s)-1]
	var parts []string
	depth, start := 0, 0
	for k := 0; k < len(body); k++ {
		switch body[k] {
		case '(':
			depth++
		case ')':
			depth--
		case ' ':
			if depth == 0 {
				parts = append(parts, body[start:k])
				start = k + 1
			}
		}
	}
	parts = append(parts, body[start:])
	if len(parts) != 3 {
		return
	}
	return parts[0], parts[1], parts[2], true
}
func sStore(a, i, v string) string { return sx("store", a, i, v) }
func sBool(b bool) string {
	if b {
		return "true"
	}
	return "false"
}

// mangle turns an arbitrary Go type string into an SMT-safe symbol fragment.
func mangle(s string) string {
	var b strings.Builder
	for _, r := range s {
		switch {
		case r >= 'a' && r <= 'z', r >= 'A' && r <= 'Z', r >= '0' && r <= '9', r == '_':
			b.WriteRune(r)
		case r == '.' || r == '/':
			b.WriteByte('_')
		case r == '*':
			b.WriteString("P")
		case r == '[':
			b.WriteString("L")
		case r == ']':
			b.WriteString("R")
		default:
			fmt.Fprintf(&b, "x%x", r)
		}
	}
	return b.String()
}
