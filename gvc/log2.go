package main

import (
	"fmt"
	"go/ast"
	"go/types"
	"strings"
)

// `before <kind> [label] E`: E must hold immediately before every logged call
// of that kind (evaluated with the locals in scope at the call).
func (v *FnV) beforeCall(st *State, ci *callInfo, call *ast.CallExpr) {
	if st.ghost == nil || st.dead || len(v.fc.Extra["before"]) == 0 {
		return
	}
	kind := v.logKindOf(ci)
	if kind < 0 {
		return
	}
	for n, l := range v.fc.Extra["before"] {
		fs := strings.SplitN(strings.TrimSpace(l), " ", 2)
		if len(fs) < 2 || fs[0] != v.logKinds[kind] {
			continue
		}
		r := strings.TrimSpace(fs[1])
		label := fmt.Sprint(n + 1)
		if strings.HasPrefix(r, "[") {
			if k := strings.Index(r, "]"); k > 0 {
				label = r[1:k]
				r = strings.TrimSpace(r[k+1:])
			}
		}
		cl := &Clause{Kind: "before", Text: r, Line: v.fc.Where, Label: label}
		e, err := parseSpec(r)
		if err != nil {
			v.specError(cl, err)
			continue
		}
		sc := &Scope{v: v, vars: map[string]Value{}, pkg: v.fr().pkg, pos: call.Pos(), old: v.entry, oldVars: v.entryVars()}
		for i, av := range ci.args {
			sc.vars[fmt.Sprintf("arg%d", i)] = av // the arguments of the call about to be made
		}
		s2 := st.fork()
		val, err := v.spec(s2, e, sc)
		if err != nil {
			v.specError(cl, err)
			continue
		}
		v.oblige(s2, "before:"+label, call, v.fr().ord[call], val.S, "before "+fs[0]+": "+r)
	}
}

// `interruptible`: a syntactic obligation for functions that wait. Every channel
// receive in the body must be a case of a select statement that also has a case
// receiving from some X.Done() (a context's cancellation channel), and the body
// must not call time.Sleep.
func (v *FnV) checkInterruptible() {
	if _, ok := v.fc.Extra["interruptible"]; !ok {
		return
	}
	info := v.frames[0].pkg.TypesInfo
	isDone := func(e ast.Expr) bool {
		u, ok := unparen(e).(*ast.UnaryExpr)
		if !ok || u.Op.String() != "<-" {
			return false
		}
		call, ok := unparen(u.X).(*ast.CallExpr)
		if !ok {
			return false
		}
		sel, ok := call.Fun.(*ast.SelectorExpr)
		return ok && sel.Sel.Name == "Done"
	}
	commExpr := func(s ast.Stmt) ast.Expr {
		switch x := s.(type) {
		case *ast.ExprStmt:
			return x.X
		case *ast.AssignStmt:
			if len(x.Rhs) == 1 {
				return x.Rhs[0]
			}
		}
		return nil
	}
	covered := map[ast.Node]bool{}
	bad := ""
	nsel := 0
	ast.Inspect(v.decl.Body, func(n ast.Node) bool {
		switch x := n.(type) {
		case *ast.SelectStmt:
			nsel++
			hasDone := false
			for _, c := range x.Body.List {
				cc := c.(*ast.CommClause)
				if cc.Comm == nil {
					continue
				}
				if e := commExpr(cc.Comm); e != nil {
					covered[unparen(e)] = true
					if isDone(e) {
						hasDone = true
					}
				}
			}
			if !hasDone && bad == "" {
				bad = "select without a <-ctx.Done() case at " + v.pos(x)
			}
		case *ast.UnaryExpr:
			if x.Op.String() == "<-" && !covered[x] && bad == "" {
				bad = "channel receive outside an interruptible select at " + v.pos(x)
			}
		case *ast.CallExpr:
			if sel, ok := x.Fun.(*ast.SelectorExpr); ok && sel.Sel.Name == "Sleep" {
				if id, ok := sel.X.(*ast.Ident); ok {
					if pn, ok := info.Uses[id].(*types.PkgName); ok && pn.Imported().Path() == "time" && bad == "" {
						bad = "time.Sleep at " + v.pos(x)
					}
				}
			}
		}
		return true
	})
	ob := &Oblig{Name: v.name + "#interruptible", Fn: v.name, Kind: "interruptible", Pos: v.fc.Where,
		Desc: "every wait is a select with a <-ctx.Done() case (no bare receive, no time.Sleep)", Solver: "syntactic"}
	if bad == "" {
		ob.Quick, ob.Result = "unsat", "unsat"
	} else {
		ob.Quick, ob.Result, ob.Output = "sat", "sat", bad
	}
	v.obligs = append(v.obligs, ob)
}
