package main

import (
	"fmt"
	"go/ast"
	"strings"
)

// `before <kind> [label] E`: E must hold immediately before every logged call
// of that kind (evaluated with the locals in scope at the call).
func (v *FnV) beforeCall(st *State, ci *callInfo, call *ast.CallExpr) {
	if st.ghost == nil || st.dead || len(v.fc.Extra["before"]) == 0 {
		return
	}
	kind := v.logKindOf(ci)
	if kind < 0 {
		return
	}
	for n, l := range v.fc.Extra["before"] {
		fs := strings.SplitN(strings.TrimSpace(l), " ", 2)
		if len(fs) < 2 || fs[0] != v.logKinds[kind] {
			continue
		}
		r := strings.TrimSpace(fs[1])
		label := fmt.Sprint(n + 1)
		if strings.HasPrefix(r, "[") {
			if k := strings.Index(r, "]"); k > 0 {
				label = r[1:k]
				r = strings.TrimSpace(r[k+1:])
			}
		}
		cl := &Clause{Kind: "before", Text: r, Line: v.fc.Where, Label: label}
		e, err := parseSpec(r)
		if err != nil {
			v.specError(cl, err)
			continue
		}
		sc := &Scope{v: v, vars: map[string]Value{}, pkg: v.fr().pkg, pos: call.Pos(), old: v.entry, oldVars: v.entryVars()}
		s2 := st.fork()
		val, err := v.spec(s2, e, sc)
		if err != nil {
			v.specError(cl, err)
			continue
		}
		v.oblige(s2, "before:"+label, call, v.fr().ord[call], val.S, "before "+fs[0]+": "+r)
	}
}
