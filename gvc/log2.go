package main

import (
	"fmt"
	"go/ast"
	"go/types"
	"strings"
)

// `before <kind> [label] E`: E must hold immediately before every logged call
// of that kind (evaluated with the locals in scope at the call).
func (v *FnV) beforeCall(st *State, ci *callInfo, call *ast.CallExpr) {
	if st.ghost == nil || st.dead || len(v.fc.Extra["before"]) == 0 {
		return
	}
	kind := v.logKindOf(ci)
	if kind < 0 {
		return
	}
	for n, l := range v.fc.Extra["before"] {
		fs := strings.SplitN(strings.TrimSpace(l), " ", 2)
		if len(fs) < 2 || fs[0] != v.logKinds[kind] {
			continue
		}
		r := strings.TrimSpace(fs[1])
		label := fmt.Sprint(n + 1)
		if strings.HasPrefix(r, "[") {
			if k := strings.Index(r, "]"); k > 0 {
				label = r[1:k]
				r = strings.TrimSpace(r[k+1:])
			}
		}
		cl := &Clause{Kind: "before", Text: r, Line: v.fc.Where, Label: label}
		e, err := parseSpec(r)
		if err != nil {
			v.specError(cl, err)
			continue
		}
		sc := &Scope{v: v, vars: map[string]Value{}, pkg: v.fr().pkg, pos: call.Pos(), old: v.entry, oldVars: v.entryVars()}
		for i, av := range ci.args {
			sc.vars[fmt.Sprintf("arg%d", i)] = av // the arguments of the call about to be made
		}
		s2 := st.fork()
		val, err := v.spec(s2, e, sc)
		if err != nil {
			v.specError(cl, err)
			continue
		}
		v.oblige(s2, "before:"+label, call, v.fr().ord[call], val.S, "before "+fs[0]+": "+r)
	}
}

// `interruptible`: a syntactic obligation for functions that wait. Every channel
// receive in the body must be a case of a select statement that also has a case
// receiving from some X.Done() (a context's cancellation channel), and the body
// must not call time.Sleep.
func (v *FnV) checkInterruptible() {
	if _, ok := v.fc.Extra["interruptible"]; !ok {
		return
	}
	info := v.frames[0].pkg.TypesInfo
	isDone := func(e ast.Expr) bool {
		u, ok := unparen(e).(*ast.UnaryExpr)
		if !ok || u.Op.String() != "<-" {
			return false
		}
		call, ok := unparen(u.X).(*ast.CallExpr)
		if !ok {
			return false
		}
		sel, ok := call.Fun.(*ast.SelectorExpr)
		return ok && sel.Sel.Name == "Done"
	}
	commExpr := func(s ast.Stmt) ast.Expr {
		switch x := s.(type) {
		case *ast.ExprStmt:
			return x.X
		case *ast.AssignStmt:
			if len(x.Rhs) == 1 {
				return x.Rhs[0]
			}
		}
		return nil
	}
	covered := map[ast.Node]bool{}
	bad := ""
	nsel := 0
	ast.Inspect(v.decl.Body, func(n ast.Node) bool {
		switch x := n.(type) {
		case *ast.SelectStmt:
			nsel++
			hasDone := false
			for _, c := range x.Body.List {
				cc := c.(*ast.CommClause)
				if cc.Comm == nil {
					continue
				}
				if e := commExpr(cc.Comm); e != nil {
					covered[unparen(e)] = true
					if isDone(e) {
						hasDone = true
					}
				}
			}
			if !hasDone && bad == "" {
				bad = "select without a <-ctx.Done() case at " + v.pos(x)
			}
		case *ast.UnaryExpr:
			if x.Op.String() == "<-" && !covered[x] && bad == "" {
				bad = "channel receive outside an interruptible select at " + v.pos(x)
			}
		case *ast.CallExpr:
			if sel, ok := x.Fun.(*ast.SelectorExpr); ok && sel.Sel.Name == "Sleep" {
				if id, ok := sel.X.(*ast.Ident); ok {
					if pn, ok := info.Uses[id].(*types.PkgName); ok && pn.Imported().Path() == "time" && bad == "" {
						bad = "time.Sleep at " + v.pos(x)
					}
				}
			}
		}
		return true
	})
	ob := &Oblig{Name: v.name + "#interruptible", Fn: v.name, Kind: "interruptible", Pos: v.fc.Where,
		Desc: "every wait is a select with a <-ctx.Done() case (no bare receive, no time.Sleep)", Solver: "syntactic"}
	if bad == "" {
		ob.Quick, ob.Result = "unsat", "unsat"
	} else {
		ob.Quick, ob.Result, ob.Output = "sat", "sat", bad
	}
	v.obligs = append(v.obligs, ob)
}

// premiseCover: for a clause of the form `A ==> B` a cover obligation records
// whether A can hold at this return. If A can hold at NO return of the function
// the clause constrains nothing; that is reported as a failure of
// <fn>#premise:<label> (vacuity guard per clause).
func (v *FnV) premiseCover(st0 *State, cl *Clause, sc *Scope, obName string) {
	e := cl.Expr
	if e == nil || e.Op != "bin" || e.Name != "==>" {
		return
	}
	st := st0.fork()
	val, err := v.spec(st, e.Args[0], sc)
	if err != nil {
		return
	}
	name := strings.Replace(obName, "#", "#premise:", 1)
	ob := &Oblig{Name: name, Fn: v.name, Kind: "premise", Canary: true, Pos: cl.Line,
		Desc: "the premise of `" + cl.Text + "` is satisfiable at some return"}
	ob.SMT = v.script(st, sNot(val.S))
	v.obligs = append(v.obligs, ob)
}

// inferPatterns: instantiation triggers for a quantifier over `sym` whose body
// uses the variable only as the index of array reads and in bound comparisons
// (the shape of the call-log clauses: forall k :: 0 <= k && k < n ==> P(log[k])).
// Without triggers the solvers give up on goals that need a universally
// quantified hypothesis to be derived from another one.
func inferPatterns(body, sym string) []string {
	var pats []string
	seen := map[string]bool{}
	for i := 0; i+len(sym) <= len(body); i++ {
		if body[i:i+len(sym)] != sym {
			continue
		}
		if i+len(sym) < len(body) {
			c := body[i+len(sym)]
			if c != ' ' && c != ')' {
				continue // part of a longer symbol
			}
		}
		if i > 0 && body[i-1] != ' ' && body[i-1] != '(' {
			continue
		}
		// find the enclosing '(' and its operator
		depth, j := 0, i-1
		for ; j >= 0; j-- {
			if body[j] == ')' {
				depth++
			} else if body[j] == '(' {
				if depth == 0 {
					break
				}
				depth--
			}
		}
		if j < 0 {
			return nil
		}
		k := j + 1
		for k < len(body) && body[k] != ' ' && body[k] != ')' {
			k++
		}
		op := body[j+1 : k]
		switch op {
		case "<=", "<", ">=", ">":
			continue
		case "select":
			// must be the index (last argument) of the select and the array must not mention sym
			end := i + len(sym)
			if end < len(body) && body[end] == ')' {
				term := body[j : end+1]
				arr := body[k+1 : i-1]
				if !strings.Contains(arr, sym) {
					if !seen[term] {
						seen[term] = true
						pats = append(pats, term)
					}
					continue
				}
			}
			return nil
		default:
			return nil
		}
	}
	return pats
}

// `maintains E` on a function-literal contract (<function>$<k>): E is an
// invariant of the variables the literal shares with its enclosing function.
// The literal is verified to preserve it (assumed at its entry, checked at
// every return); where the literal is handed to code that is not executed
// symbolically, E must hold before the call and may be assumed after it, however
// often the callee ran the literal.
func (v *FnV) maintainsClauses(fc *FuncContract) []*Clause {
	var out []*Clause
	if fc == nil {
		return nil
	}
	for n, l := range fc.Extra["maintains"] {
		r := strings.TrimSpace(l)
		label := fmt.Sprint(n + 1)
		if strings.HasPrefix(r, "[") {
			if k := strings.Index(r, "]"); k > 0 {
				label = r[1:k]
				r = strings.TrimSpace(r[k+1:])
			}
		}
		e, err := parseSpec(r)
		if err != nil {
			v.specError(&Clause{Text: r, Line: fc.Where}, err)
			continue
		}
		out = append(out, &Clause{Kind: "maintains", Label: label, Expr: e, Text: r, Line: fc.Where})
	}
	return out
}

// closureInvariant handles one closure argument around an unexecuted call:
// phase "before" emits the obligations, phase "after" assumes the invariant.
func (v *FnV) closureInvariant(st *State, a Value, phase string) {
	cr, ok := v.closures[a.S]
	if !ok {
		return
	}
	fc := v.e.cs.Funcs[v.e.litName[cr.lit]]
	cls := v.maintainsClauses(fc)
	if len(cls) == 0 {
		return
	}
	sc := &Scope{v: v, vars: map[string]Value{}, pkg: v.fr().pkg, pos: cr.lit.Pos(), old: v.entry, oldVars: v.entryVars()}
	for _, cl := range cls {
		if phase == "before" {
			s2 := st.fork()
			val, err := v.spec(s2, cl.Expr, sc)
			if err != nil {
				v.specError(cl, err)
				continue
			}
			v.oblige(s2, "maintains-init:"+cl.Label, posNode(cr.lit.Pos()), 0, val.S, "closure invariant holds before the closure is handed over: "+cl.Text)
		} else {
			val, err := v.spec(st, cl.Expr, sc)
			if err == nil {
				st.assume(val.S)
				v.c.trusted[v.name+": the unexecuted callee changes the state of the closure invariant `"+cl.Text+"` only by running the closure"] = true
			}
		}
	}
}
