package main

// `nowrite`: the immutability frame. A function whose contract carries the
// directive `nowrite` must not change any object that existed when it was
// called: every heap store it performs (through a pointer, into a slice or
// map, by copy or by an append that may reuse spare capacity) has to target an
// object allocated during this activation, and every call it makes has to be
// to a function that is pure, is itself under a `nowrite` contract, or is
// executed inline (its stores are then checked here).
//
// The append model of the engine copies into a fresh array; that is only
// faithful when the appended-to slice has no spare capacity or is this
// activation's own, which is exactly what the append obligation demands.

import (
	"go/ast"
	"go/token"
	"go/types"
	"strings"
)

type posNode token.Pos

func (p posNode) Pos() token.Pos { return token.Pos(p) }
func (p posNode) End() token.Pos { return token.Pos(p) }

func (v *FnV) isNoWrite() bool {
	if v.fc == nil {
		return false
	}
	_, ok := v.fc.Extra["nowrite"]
	return ok
}

// ownRef: the term is (syntactically) a reference allocated by this activation.
func (v *FnV) ownRef(ref string) bool {
	if v.ownRefs[ref] {
		return true
	}
	// (sref (mkslice REF ...)) of an own allocation
	const p = "(sref (mkslice "
	if strings.HasPrefix(ref, p) {
		rest := ref[len(p):]
		if k := strings.IndexAny(rest, " )"); k > 0 && v.ownRefs[rest[:k]] {
			return true
		}
	}
	return false
}

// writeCheck emits the frame obligation for a store to the object `ref`.
func (v *FnV) writeCheck(st *State, ref string, what string) {
	if !v.nowriteOn || st == nil || st.dead || st.quiet {
		return
	}
	if v.ownRef(ref) {
		return
	}
	var node ast.Node = posNode(v.curPos)
	s2 := st.fork()
	cond := sGt(ref, "alloc!0")
	// cells named in a `modifies *p` clause are the function's declared effect
	if len(v.frames) > 0 {
		sig := v.frames[0].sig
		for _, p := range modifiedParams(v.fc.Extra["writes"]) {
			var pv *types.Var
			if sig.Recv() != nil && sig.Recv().Name() == p {
				pv = sig.Recv()
			}
			for i := 0; i < sig.Params().Len(); i++ {
				if sig.Params().At(i).Name() == p {
					pv = sig.Params().At(i)
				}
			}
			if pv == nil {
				continue
			}
			if ev, ok := v.entry.env[pv]; ok {
				if ev.S == ref {
					return
				}
				cond = sOr(cond, sEq(ref, ev.S))
			}
		}
	}
	v.oblige(s2, "nowrite:"+what, node, 0, cond, "store targets an object allocated in this activation or a cell listed in modifies ("+what+")")
	// execution continues: the store itself is still performed in the model
}

// appendCheck: an append may write into the spare capacity of its first operand.
func (v *FnV) appendCheck(st *State, base Value) {
	if !v.nowriteOn || st == nil || st.dead {
		return
	}
	if base.S == "nilslice" {
		return
	}
	ref := sx("sref", base.S)
	if v.ownRef(ref) {
		return
	}
	var node ast.Node = posNode(v.curPos)
	s2 := st.fork()
	cond := sOr(sEq(sx("slcap", base.S), sx("sllen", base.S)), sGt(ref, "alloc!0"))
	v.oblige(s2, "nowrite:append", node, 0, cond, "append cannot write into spare capacity of an array that existed before the call")
}

// callCheck: a call made by a nowrite function must not write existing objects.
func (v *FnV) callWriteCheck(st *State, call *ast.CallExpr, what string, ok bool) {
	if !v.nowriteOn || st == nil || st.dead || ok {
		return
	}
	// `effects <callee...>`: the calls that ARE the function's declared effect
	for _, l := range v.fc.Extra["effects"] {
		for _, name := range strings.Fields(l) {
			if what == name || strings.HasSuffix(what, "."+name) {
				return
			}
		}
	}
	cond := "false"
	v.oblige(st.fork(), "nowrite:call", call, v.fr().ord[call], cond, "call to "+what+" which is neither pure nor under a nowrite contract")
}
