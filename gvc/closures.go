package main

import (
	"go/ast"
	"go/token"
	"go/types"
)

// capturedAssigned returns the variables declared outside lit that lit's body assigns.
func capturedAssigned(lit *ast.FuncLit, info *types.Info) []types.Object {
	seen := map[types.Object]bool{}
	var out []types.Object
	add := func(e ast.Expr) {
		if throughPointer(e, info) {
			return // p.f = ... writes the object p points to, not the variable p
		}
		id := rootIdent(e)
		if id == nil {
			return
		}
		obj := info.Uses[id]
		if obj == nil {
			return
		}
		if _, ok := obj.(*types.Var); !ok {
			return
		}
		if obj.Pos() >= lit.Pos() && obj.Pos() <= lit.End() {
			return // declared inside the literal
		}
		if !seen[obj] {
			seen[obj] = true
			out = append(out, obj)
		}
	}
	ast.Inspect(lit.Body, func(n ast.Node) bool {
		switch x := n.(type) {
		case *ast.AssignStmt:
			if x.Tok != token.DEFINE {
				for _, l := range x.Lhs {
					add(l)
				}
			} else {
				for _, l := range x.Lhs {
					if id, ok := l.(*ast.Ident); ok && info.Defs[id] == nil {
						add(l) // redeclaration in := assigns an existing variable
					}
				}
			}
		case *ast.IncDecStmt:
			add(x.X)
		case *ast.RangeStmt:
			if x.Tok == token.ASSIGN {
				if x.Key != nil {
					add(x.Key)
				}
				if x.Value != nil {
					add(x.Value)
				}
			}
		}
		return true
	})
	return out
}

// escapeClosures is called when closure values are handed to code that is not
// executed symbolically (a havocked call): the callee may run them any number
// of times, now or later, so every captured variable they assign becomes
// unknown now and at every later yield point.
func (v *FnV) escapeClosures(st *State, args []Value) {
	for _, a := range args {
		v.closureInvariant(st, a, "before")
	}
	defer func() {
		for _, a := range args {
			v.closureInvariant(st, a, "after")
		}
	}()
	for _, a := range args {
		cr, ok := v.closures[a.S]
		if !ok {
			continue
		}
		for _, obj := range capturedAssigned(cr.lit, cr.frame.pkg.TypesInfo) {
			if v.shared == nil {
				v.shared = map[types.Object]bool{}
			}
			v.shared[obj] = true
			if v.boxed[obj] {
				continue // lives in the heap, which the havocked call forgets anyway
			}
			if cur, ok := st.env[obj]; ok {
				st.env[obj] = st.freshVal(obj.Name(), cur.T)
			}
		}
	}
}

// knownDynType returns the concrete type of an interface value term of the form
// (mkval <tag> ...), i.e. one that was boxed from a concrete value in this activation.
func (v *FnV) knownDynType(term string) types.Type {
	const p = "(mkval "
	if len(term) <= len(p) || term[:len(p)] != p {
		return nil
	}
	tag := 0
	i := len(p)
	for i < len(term) && term[i] >= '0' && term[i] <= '9' {
		tag = tag*10 + int(term[i]-'0')
		i++
	}
	if tag == 0 {
		return nil
	}
	for _, tt := range v.c.tagTypes {
		if v.c.tagOf(tt) == tag {
			if tt == sentinelType {
				return nil
			}
			return tt
		}
	}
	return nil
}
