package main

import (
	"fmt"
	"go/ast"
	"go/token"
	"go/types"
	"strings"
)

const maxInlineDepth = 7

// callee resolves the static callee of a call, if any.
func (v *FnV) callee(call *ast.CallExpr) (fn *types.Func, recv ast.Expr, sel *types.Selection) {
	info := v.info()
	fun := unparen(call.Fun)
	switch f := fun.(type) {
	case *ast.Ident:
		if o, ok := info.Uses[f].(*types.Func); ok {
			return o, nil, nil
		}
	case *ast.SelectorExpr:
		if s, ok := info.Selections[f]; ok {
			if s.Kind() == types.MethodVal {
				return s.Obj().(*types.Func), f.X, s
			}
			return nil, nil, nil
		}
		if o, ok := info.Uses[f.Sel].(*types.Func); ok {
			return o, nil, nil
		}
	case *ast.IndexExpr:
		if id := identOf(f.X); id != nil {
			if o, ok := info.Uses[id].(*types.Func); ok {
				return o, nil, nil
			}
		}
	case *ast.IndexListExpr:
		if id := identOf(f.X); id != nil {
			if o, ok := info.Uses[id].(*types.Func); ok {
				return o, nil, nil
			}
		}
	}
	return nil, nil, nil
}

func (v *FnV) callIsPure(call *ast.CallExpr) bool {
	info := v.info()
	if tv, ok := info.Types[call.Fun]; ok && tv.IsType() {
		return true
	}
	if id, ok := unparen(call.Fun).(*ast.Ident); ok {
		if b, ok := info.Uses[id].(*types.Builtin); ok {
			switch b.Name() {
			case "len", "cap", "min", "max", "panic", "new", "make", "append":
				return true
			}
			return false
		}
	}
	fn, _, _ := v.callee(call)
	if fn == nil {
		return false
	}
	full := funcFullName(fn)
	if fc, ok := v.e.cs.Funcs[full]; ok {
		return fc.Pure
	}
	if m, ok := stdModels[full]; ok {
		return m.pure
	}
	return v.e.declPure(full, 0)
}

// declPure: a function without a contract whose body, syntactically, writes only
// its own local variables and calls only pure functions has no heap effect.
func (e *Engine) declPure(full string, depth int) bool {
	if p, ok := e.pureMemo[full]; ok {
		return p
	}
	decl, pkg := e.decls[full], e.declPkg[full]
	if decl == nil || decl.Body == nil || depth > 4 {
		return false
	}
	if e.pureMemo == nil {
		e.pureMemo = map[string]bool{}
	}
	e.pureMemo[full] = false // recursion guard
	info := pkg.TypesInfo
	pure := true
	local := func(x ast.Expr) bool {
		for {
			switch y := unparen(x).(type) {
			case *ast.Ident:
				obj := info.Uses[y]
				if obj == nil {
					obj = info.Defs[y]
				}
				vr, ok := obj.(*types.Var)
				return ok && !(vr.Pkg() != nil && vr.Parent() == vr.Pkg().Scope())
			case *ast.SelectorExpr:
				if t := info.TypeOf(y.X); t != nil {
					if _, ptr := t.Underlying().(*types.Pointer); ptr {
						return false
					}
				}
				x = y.X
			case *ast.IndexExpr:
				if t := info.TypeOf(y.X); t != nil {
					if _, arr := t.Underlying().(*types.Array); !arr {
						return false
					}
				}
				x = y.X
			default:
				return false
			}
		}
	}
	ast.Inspect(decl.Body, func(n ast.Node) bool {
		switch x := n.(type) {
		case *ast.AssignStmt:
			for _, l := range x.Lhs {
				if id, ok := l.(*ast.Ident); ok && id.Name == "_" {
					continue
				}
				if !local(l) {
					pure = false
				}
			}
		case *ast.IncDecStmt:
			if !local(x.X) {
				pure = false
			}
		case *ast.GoStmt, *ast.SendStmt, *ast.SelectStmt, *ast.DeferStmt:
			pure = false
		case *ast.CallExpr:
			if tv, ok := info.Types[x.Fun]; ok && tv.IsType() {
				return true
			}
			if id, ok := unparen(x.Fun).(*ast.Ident); ok {
				if b, ok := info.Uses[id].(*types.Builtin); ok {
					switch b.Name() {
					case "len", "cap", "min", "max", "panic", "new", "make", "append":
					default:
						pure = false
					}
					return true
				}
			}
			var fn *types.Func
			switch f := unparen(x.Fun).(type) {
			case *ast.Ident:
				fn, _ = info.Uses[f].(*types.Func)
			case *ast.SelectorExpr:
				if s, ok := info.Selections[f]; ok {
					if s.Kind() == types.MethodVal {
						fn, _ = s.Obj().(*types.Func)
					}
				} else {
					fn, _ = info.Uses[f.Sel].(*types.Func)
				}
			}
			if fn == nil {
				pure = false
				return true
			}
			cf := funcFullName(fn)
			if fc, ok := e.cs.Funcs[cf]; ok {
				if !fc.Pure && !fc.Inline {
					pure = false
				}
				if fc.Inline && !e.declPure(cf, depth+1) {
					pure = false
				}
			} else if m, ok := stdModels[cf]; ok {
				if !m.pure {
					pure = false
				}
			} else if !e.declPure(cf, depth+1) {
				pure = false
			}
		}
		return true
	})
	e.pureMemo[full] = pure
	return pure
}

// wbEntry is a pending copy-out of an interior pointer &x.f that was passed to
// a call through a temporary cell.
type wbEntry struct {
	ref   string
	lhs   ast.Expr
	t     types.Type
	depth int
}

func (v *FnV) call(st *State, call *ast.CallExpr) []Value {
	v.callDepth++
	nframes := len(v.frames)
	out := v.callWithArgs(st, call, nil)
	// copy-out of interior pointers created for this call
	if len(v.frames) == nframes {
		keep := v.wb[:0]
		for _, w := range v.wb {
			if w.depth == v.callDepth && !st.dead {
				v.assignTo(st, w.lhs, Value{T: w.t, S: v.load(st, w.t, w.ref)})
			} else if w.depth < v.callDepth {
				keep = append(keep, w)
			}
		}
		v.wb = keep
	}
	v.callDepth--
	return out
}

// resultTypes of a call expression.
func (v *FnV) resultTypes(call *ast.CallExpr) []types.Type {
	t := v.typeOf(call)
	if t == nil {
		return nil
	}
	if tup, ok := t.(*types.Tuple); ok {
		out := make([]types.Type, tup.Len())
		for i := range out {
			out[i] = v.substT(tup.At(i).Type())
		}
		return out
	}
	return []types.Type{t}
}

func (v *FnV) havocResults(st *State, call *ast.CallExpr, hint string) []Value {
	var out []Value
	for _, t := range v.resultTypes(call) {
		out = append(out, st.freshVal(hint, t))
	}
	return out
}

func (v *FnV) evalArgs(st *State, call *ast.CallExpr, sig *types.Signature, pre []Value) []Value {
	if pre != nil {
		return pre
	}
	var args []Value
	if len(call.Args) == 1 && sig != nil && sig.Params().Len() > 1 {
		// f(g()) with multi-value g
		if inner, ok := unparen(call.Args[0]).(*ast.CallExpr); ok {
			return v.call(st, inner)
		}
	}
	for i, a := range call.Args {
		val := v.expr(st, a)
		if sig != nil {
			var pt types.Type
			n := sig.Params().Len()
			switch {
			case sig.Variadic() && i >= n-1:
				if call.Ellipsis.IsValid() {
					pt = sig.Params().At(n - 1).Type()
				} else {
					pt = sig.Params().At(n - 1).Type().(*types.Slice).Elem()
				}
			case i < n:
				pt = sig.Params().At(i).Type()
			}
			if pt != nil {
				if _, isTP := types.Unalias(pt).(*types.TypeParam); !isTP && !containsTypeParam(pt) {
					val = v.convert(st, val, pt)
				}
			}
		}
		args = append(args, val)
	}
	return args
}

func containsTypeParam(t types.Type) bool {
	switch u := types.Unalias(t).(type) {
	case *types.TypeParam:
		return true
	case *types.Pointer:
		return containsTypeParam(u.Elem())
	case *types.Slice:
		return containsTypeParam(u.Elem())
	case *types.Array:
		return containsTypeParam(u.Elem())
	case *types.Map:
		return containsTypeParam(u.Key()) || containsTypeParam(u.Elem())
	case *types.Named:
		if ta := u.TypeArgs(); ta != nil {
			for i := 0; i < ta.Len(); i++ {
				if containsTypeParam(ta.At(i)) {
					return true
				}
			}
		}
	case *types.Signature:
		return true
	}
	return false
}

func (v *FnV) callWithArgs(st *State, call *ast.CallExpr, preArgs []Value) []Value {
	if st.ghost == nil {
		return v.callWithArgs0(st, call, preArgs, &callInfo{})
	}
	ci := &callInfo{}
	res := v.callWithArgs0(st, call, preArgs, ci)
	v.logCall(st, ci, res)
	return res
}

func (v *FnV) callWithArgs0(st *State, call *ast.CallExpr, preArgs []Value, ci *callInfo) []Value {
	info := v.info()
	fun := unparen(call.Fun)
	// conversion
	if tv, ok := info.Types[fun]; ok && tv.IsType() {
		t := v.substT(tv.Type)
		var a Value
		if preArgs != nil {
			a = preArgs[0]
		} else {
			a = v.expr(st, call.Args[0])
		}
		return []Value{v.convert(st, a, t)}
	}
	// builtins
	if id, ok := fun.(*ast.Ident); ok {
		if b, ok := info.Uses[id].(*types.Builtin); ok {
			return v.builtin(st, call, b.Name(), preArgs)
		}
	}
	// immediately-invoked function literal
	if lit, ok := fun.(*ast.FuncLit); ok {
		args := v.evalArgs(st, call, v.typeOf(lit).(*types.Signature), preArgs)
		return v.inlineLit(st, lit, v.fr(), args)
	}
	fn, recvExpr, sel := v.callee(call)
	if fn == nil {
		// call of a func-typed value: local closure?
		fv := v.expr(st, fun)
		sig, _ := fv.T.Underlying().(*types.Signature)
		args := v.evalArgs(st, call, sig, preArgs)
		if cr, ok := v.closures[fv.S]; ok {
			return v.inlineLit(st, cr.lit, cr.frame, args)
		}
		ci.opaque, ci.fv, ci.args = true, fv.S, args
		if ix, ok := fun.(*ast.IndexExpr); ok && st.ghost != nil {
			if _, isSl := v.typeOf(ix.X).Underlying().(*types.Slice); isSl {
				ci.idx = v.expr(st.fork(), ix.Index).S
			}
		}
		v.beforeCall(st, ci, call)
		// a contract attached to the NAMED function type of the callee value
		// (//@ func <TypeName>): every value of that type is assumed to satisfy it
		if nt, ok := types.Unalias(v.typeOf(fun)).(*types.Named); ok && sig != nil && nt.Obj().Pkg() != nil {
			if fc, ok := v.e.cs.Funcs[nt.Obj().Pkg().Path()+"."+nt.Obj().Name()]; ok {
				v.c.trusted["every value of function type "+nt.Obj().Name()+" is assumed to satisfy the type's contract"] = true
				v.callWriteCheck(st, call, "a value of function type "+nt.Obj().Name(), fc.Pure)
				v.noFunctional = true
				res := v.contractCallSig(st, call, fc, nt.Obj().Name(), sig, nil, args)
				v.noFunctional = false
				if _, ok := fc.Extra["functional"]; ok && len(res) == 1 {
					// the function VALUE is an argument of the functional symbol
					all := append([]Value{{T: nt, S: fv.S}}, args...)
					st.assume(sEq(res[0].S, v.functionalApp(fc, 0, res[0].T, all)))
				}
				return res
			}
		}
		if _, ok := v.fc.Extra["purefv"]; ok {
			// declared assumption: the function values this function calls (configuration
			// callbacks, iterators) do not write the heap; they may still run the closures handed to them
			v.c.trusted[v.name+": function values called here are assumed not to write the heap (purefv)"] = true
			v.escapeClosures(st, args)
			return v.havocResults(st, call, "fv")
		}
		v.callWriteCheck(st, call, "an unknown function value", false)
		v.abstract(call, "call of function value (havoc)")
		v.escapeClosures(st, args)
		v.yield(st)
		return v.havocResults(st, call, "fv")
	}
	sig := fn.Type().(*types.Signature)
	full := funcFullName(fn)
	if m, ok := stdModels[full]; ok && m.norecv {
		// receiver-independent model (locks, wait groups): the receiver is not evaluated
		args := v.evalArgs(st, call, sig, preArgs)
		ci.full, ci.args = full, args
		return m.f(v, st, call, nil, args)
	}
	// receiver
	var recv *Value
	if recvExpr != nil {
		r := v.expr(st, recvExpr)
		// adjust pointer/value receiver along the selection path
		if sel != nil {
			r = v.adjustRecv(st, recvExpr, r, sel, sig)
		}
		recv = &r
	}
	// devirtualisation: the interface value was built from a known concrete type in this activation
	if recv != nil && isInterface(recv.T) {
		if ct := v.knownDynType(recv.S); ct != nil {
			if obj, _, _ := types.LookupFieldOrMethod(ct, true, v.fr().pkg.Types, fn.Name()); obj != nil {
				if m, ok := obj.(*types.Func); ok {
					cv := Value{T: ct, S: v.c.fromIface(recv.S, ct)}
					fn, sig, full = m, m.Type().(*types.Signature), funcFullName(m)
					recv = &cv
				}
			}
		}
	}
	// interface method call
	if recv != nil && isInterface(recv.T) {
		args := v.evalArgs(st, call, sig, preArgs)
		ci.full, ci.args, ci.recv = full, args, recv
		v.beforeCall(st, ci, call)
		if fc, ok := v.e.cs.Funcs[full]; ok {
			_, nw := fc.Extra["nowrite"]
			v.callWriteCheck(st, call, shortName(full), fc.Pure || nw)
			return v.contractCall(st, call, fc, fn, recv, args)
		}
		if m, ok := stdModels[full]; ok {
			v.callWriteCheck(st, call, shortName(full), m.pure)
			return m.f(v, st, call, recv, args)
		}
		v.callWriteCheck(st, call, shortName(full), false)
		v.abstract(call, "interface method call "+shortName(full)+" without contract (havoc)")
		v.escapeClosures(st, args)
		v.yield(st)
		return v.havocResults(st, call, fn.Name())
	}
	args := v.evalArgs(st, call, sig, preArgs)
	ci.full, ci.args, ci.recv = full, args, recv
	v.beforeCall(st, ci, call)
	for _, l := range v.fc.Extra["opaque"] {
		for _, name := range strings.Fields(l) {
			if shortName(full) == name || strings.HasSuffix(full, "."+name) {
				// the caller's contract asks for this callee to be treated as an opaque pure function here
				v.c.trusted[v.name+": "+shortName(full)+" is treated as an opaque function without heap effects (opaque "+name+")"] = true
				return v.havocResults(st, call, fn.Name())
			}
		}
	}
	if fc, ok := v.e.cs.Funcs[full]; ok && !fc.Inline {
		_, nw := fc.Extra["nowrite"]
		v.callWriteCheck(st, call, shortName(full), fc.Pure || nw)
		return v.contractCall(st, call, fc, fn, recv, args)
	}
	if m, ok := stdModels[full]; ok {
		v.callWriteCheck(st, call, shortName(full), m.pure)
		v.c.trusted["stdlib model: "+full] = true
		return m.f(v, st, call, recv, args)
	}
	forceInline := false
	if fc, ok := v.e.cs.Funcs[full]; ok && fc.Inline {
		forceInline = true // loops inside get no invariant: their effects are havocked
	}
	if decl := v.e.decls[full]; decl != nil && decl.Body != nil && len(v.frames) < maxInlineDepth+2 && !v.inlining[full] && (forceInline || (len(v.frames) < maxInlineDepth && v.inlinable(decl))) {
		return v.inlineDecl(st, call, full, fn, recv, args)
	}
	v.callWriteCheck(st, call, shortName(full), v.e.declPure(full, 0))
	v.abstract(call, "call to "+shortName(full)+" without contract (havoc)")
	v.escapeClosures(st, args)
	v.yield(st)
	return v.havocResults(st, call, fn.Name())
}

// adjustRecv converts the evaluated receiver expression to what the method expects.
func (v *FnV) adjustRecv(st *State, e ast.Expr, r Value, sel *types.Selection, sig *types.Signature) Value {
	path := sel.Index()
	// follow embedded fields
	if len(path) > 1 {
		r = v.fieldPath(st, e, r, path[:len(path)-1])
	}
	if sig.Recv() == nil || isInterface(r.T) {
		return r
	}
	_, wantPtr := sig.Recv().Type().(*types.Pointer)
	_, havePtr := r.T.Underlying().(*types.Pointer)
	switch {
	case wantPtr && !havePtr:
		// (&x).M(): x must be boxed local
		if id, ok := unparen(e).(*ast.Ident); ok && len(path) == 1 {
			if obj := v.info().Uses[id]; obj != nil && v.boxed[obj] {
				return Value{T: types.NewPointer(r.T), S: st.env[obj].S}
			}
		}
		// interior pointer: allocate a temporary copy (writes are lost -> abstraction)
		v.abstract(e, "pointer-receiver call on non-addressable/field value (copy)")
		ref := v.alloc(st, "tmp")
		v.store(st, r.T, ref, r.S)
		return Value{T: types.NewPointer(r.T), S: ref}
	case !wantPtr && havePtr:
		pt := r.T.Underlying().(*types.Pointer)
		v.nilCheck(st, e, r)
		return Value{T: v.substT(pt.Elem()), S: v.load(st, v.substT(pt.Elem()), r.S)}
	}
	return r
}

func (v *FnV) inlinable(decl *ast.FuncDecl) bool {
	n := 0
	ok := true
	ast.Inspect(decl.Body, func(x ast.Node) bool {
		switch x.(type) {
		case ast.Stmt:
			n++
		case *ast.FuncLit:
			// allowed
		}
		switch x.(type) {
		case *ast.ForStmt, *ast.RangeStmt:
			ok = false // loops need invariants: require a contract
		case *ast.GoStmt, *ast.SelectStmt:
			ok = false
		}
		return true
	})
	return ok && n <= 60
}

func (v *FnV) inlineDecl(st *State, call *ast.CallExpr, full string, fn *types.Func, recv *Value, args []Value) []Value {
	decl, pkg := v.e.decls[full], v.e.declPkg[full]
	sig := fn.Origin().Type().(*types.Signature)
	fr := &Frame{pkg: pkg, body: decl.Body, ftype: decl.Type, sig: sig, name: full,
		prefix: v.fr().prefix + "inl:" + shortName(full) + "/", defers: len(st.defers)}
	fr.ord = computeOrdinals(decl.Body, pkg.TypesInfo)
	// type parameter substitution
	if inst, ok := v.info().Instances[identOf(unparenFun(call.Fun))]; ok && inst.TypeArgs != nil {
		fr.subst = map[*types.TypeParam]types.Type{}
		tps := sig.TypeParams()
		for i := 0; tps != nil && i < tps.Len() && i < inst.TypeArgs.Len(); i++ {
			fr.subst[tps.At(i)] = v.substT(inst.TypeArgs.At(i))
		}
	}
	if recv != nil && sig.RecvTypeParams() != nil {
		if named, ok := derefNamed(recv.T); ok && named.TypeArgs() != nil {
			fr.subst = map[*types.TypeParam]types.Type{}
			tps := sig.RecvTypeParams()
			for i := 0; i < tps.Len() && i < named.TypeArgs().Len(); i++ {
				fr.subst[tps.At(i)] = named.TypeArgs().At(i)
			}
		}
	}
	v.inlining[full] = true
	defer delete(v.inlining, full)
	v.scanBoxed(decl.Body, pkg.TypesInfo)
	v.frames = append(v.frames, fr)
	defer func() { v.frames = v.frames[:len(v.frames)-1] }()
	if recv != nil && sig.Recv() != nil && sig.Recv().Name() != "" && sig.Recv().Name() != "_" {
		v.setVar(st, sig.Recv(), Value{T: v.substT(sig.Recv().Type()), S: recv.S})
	}
	v.bindParams(st, sig, args)
	return v.runInlined(st, fr, decl.Body, sig)
}

func unparenFun(e ast.Expr) ast.Expr {
	e = unparen(e)
	if ix, ok := e.(*ast.IndexExpr); ok {
		return ix.X
	}
	if ix, ok := e.(*ast.IndexListExpr); ok {
		return ix.X
	}
	return e
}

func derefNamed(t types.Type) (*types.Named, bool) {
	if p, ok := t.Underlying().(*types.Pointer); ok {
		t = p.Elem()
	}
	n, ok := types.Unalias(t).(*types.Named)
	return n, ok
}

func (v *FnV) bindParams(st *State, sig *types.Signature, args []Value) {
	n := sig.Params().Len()
	for i := 0; i < n; i++ {
		p := sig.Params().At(i)
		if sig.Variadic() && i == n-1 {
			// pack remaining args into a slice unless a slice was passed with ...
			pt := v.substT(p.Type())
			if len(args) == n && v.c.sortOf(args[i].T) == sortSlice {
				if p.Name() != "" && p.Name() != "_" {
					v.setVar(st, p, Value{T: pt, S: args[i].S})
				}
				continue
			}
			elem := pt.(*types.Slice).Elem()
			rest := args[min(i, len(args)):]
			sl := v.packSlice(st, elem, rest)
			if p.Name() != "" && p.Name() != "_" {
				v.setVar(st, p, Value{T: pt, S: sl})
			}
			continue
		}
		if p.Name() == "" || p.Name() == "_" || i >= len(args) {
			continue
		}
		v.setVar(st, p, v.convert(st, args[i], v.substT(p.Type())))
	}
}

func (v *FnV) packSlice(st *State, elem types.Type, vals []Value) string {
	if len(vals) == 0 {
		return "nilslice"
	}
	ref := v.alloc(st, "varargs")
	name, h := v.elemHeap(st, elem)
	arr := sSelect(h, ref)
	for i, a := range vals {
		arr = sStore(arr, fmt.Sprint(i), v.convert(st, a, elem).S)
	}
	st.setHeap(name, sStore(h, ref, arr))
	return fmt.Sprintf("(mkslice %s 0 %d %d)", ref, len(vals), len(vals))
}

// runInlined executes a body in the current (already pushed) frame and merges its returns.
func (v *FnV) runInlined(st *State, fr *Frame, body *ast.BlockStmt, sig *types.Signature) []Value {
	for i := 0; i < sig.Results().Len(); i++ {
		r := sig.Results().At(i)
		var obj types.Object = r
		if r.Name() == "" || r.Name() == "_" {
			obj = types.NewVar(token.NoPos, fr.pkg.Types, fmt.Sprintf("res!%d", i), r.Type())
		} else {
			v.setVar(st, r, Value{T: v.substT(r.Type()), S: v.c.zeroOf(v.substT(r.Type()))})
		}
		fr.results = append(fr.results, obj)
	}
	base := len(st.items)
	work := st.fork()
	fl := v.block(work, body.List)
	var rets []Exit
	for _, ex := range fl.exits {
		if ex.kind == exReturn {
			rets = append(rets, ex)
		}
	}
	if fl.normal != nil && !fl.normal.dead {
		ex := Exit{kind: exReturn, st: fl.normal}
		for _, r := range fr.results {
			ex.results = append(ex.results, v.getVar(fl.normal, r))
		}
		v.runDefers(&ex, fr)
		rets = append(rets, ex)
	}
	// place results in synthetic variables so that merging handles them
	synth := make([]types.Object, len(fr.results))
	for i, r := range fr.results {
		synth[i] = types.NewVar(token.NoPos, fr.pkg.Types, fmt.Sprintf("ret!%d!%d", len(v.frames), i), r.Type())
	}
	var sts []*State
	for _, ex := range rets {
		for i := range synth {
			if i < len(ex.results) {
				ex.st.env[synth[i]] = Value{T: v.substT(fr.results[i].Type()), S: ex.results[i].S}
			}
		}
		sts = append(sts, ex.st)
	}
	m := v.merge(base, sts...)
	if m == nil {
		st.dead = true
		var out []Value
		for _, r := range fr.results {
			out = append(out, Value{T: v.substT(r.Type()), S: v.c.zeroOf(v.substT(r.Type()))})
		}
		return out
	}
	*st = *m
	var out []Value
	for i := range synth {
		out = append(out, st.env[synth[i]])
		delete(st.env, synth[i])
	}
	return out
}

func (v *FnV) inlineLit(st *State, lit *ast.FuncLit, owner *Frame, args []Value) []Value {
	if len(v.frames) >= maxInlineDepth+2 {
		v.abstract(lit, "closure inlining depth exceeded (havoc)")
		st.havocAllHeaps()
		return nil
	}
	sig := owner.pkg.TypesInfo.TypeOf(lit).(*types.Signature)
	fr := &Frame{pkg: owner.pkg, body: lit.Body, ftype: lit.Type, sig: sig, name: owner.name + "$lit",
		prefix: v.fr().prefix, subst: owner.subst, defers: len(st.defers)}
	// closures share the ordinal numbering of the enclosing declaration
	fr.ord = owner.ord
	v.frames = append(v.frames, fr)
	defer func() { v.frames = v.frames[:len(v.frames)-1] }()
	v.bindParams(st, sig, args)
	return v.runInlined(st, fr, lit.Body, sig)
}

// ---------- contract calls ----------

func (v *FnV) contractCall(st *State, call *ast.CallExpr, fc *FuncContract, fn *types.Func, recv *Value, args []Value) []Value {
	return v.contractCallSig(st, call, fc, fn.Name(), fn.Origin().Type().(*types.Signature), recv, args)
}

// fnNamer carries the callee name for obligation and result names.
type fnNamer struct{ name string }

func (f fnNamer) Name() string { return f.name }

func (v *FnV) contractCallSig(st *State, call *ast.CallExpr, fc *FuncContract, name string, sig *types.Signature, recv *Value, args []Value) []Value {
	fn := fnNamer{name}
	pkg := v.e.pkgs[fc.Pkg]
	vars := map[string]Value{}
	if recv != nil && sig.Recv() != nil {
		if sig.Recv().Name() != "" && sig.Recv().Name() != "_" {
			vars[sig.Recv().Name()] = *recv
		}
		vars["self"] = *recv
	}
	n := sig.Params().Len()
	// "params a b c" in the contract names unnamed parameters (interface methods) positionally
	var pnames []string
	for _, l := range fc.Extra["params"] {
		pnames = append(pnames, strings.Fields(l)...)
	}
	for i := 0; i < n; i++ {
		p := sig.Params().At(i)
		if i < len(pnames) && i < len(args) {
			vars[pnames[i]] = args[i]
		}
		if p.Name() == "" || p.Name() == "_" {
			continue
		}
		if sig.Variadic() && i == n-1 {
			if len(args) == n && v.c.sortOf(args[i].T) == sortSlice {
				vars[p.Name()] = args[i]
			} else {
				pt := p.Type().(*types.Slice)
				vars[p.Name()] = Value{T: p.Type(), S: v.packSlice(st, pt.Elem(), args[min(i, len(args)):])}
			}
			continue
		}
		if i < len(args) {
			vars[p.Name()] = args[i]
		}
	}
	v.ghostArgs(st, call, fc, vars)
	ord := v.fr().ord[call]
	sc := &Scope{v: v, vars: vars, pkg: pkg, callee: true}
	for k, cl := range fc.Requires {
		s2 := st.fork()
		val, err := v.spec(s2, cl.Expr, sc)
		if err != nil {
			v.specError(cl, err)
			continue
		}
		lbl := fmt.Sprint(k + 1)
		if cl.Label != "" {
			lbl = cl.Label
		}
		skipPre := false
		for _, sk := range v.fc.Extra["skip"] {
			if sk == "pre:"+fn.Name() || sk == "pre:"+fn.Name()+":"+lbl {
				skipPre = true
			}
		}
		if skipPre {
			// the caller's contract declares this callee's preconditions out of scope (listed as an assumption)
			v.c.trusted[v.name+": precondition "+cl.Text+" of "+shortName(fc.FullName())+" is assumed at the call (skip pre:"+fn.Name()+")"] = true
		} else {
			v.oblige(s2, fmt.Sprintf("pre:%s:%s", fn.Name(), lbl), call, ord, val.S, "requires "+cl.Text+" of "+shortName(fc.FullName()))
		}
		// continue under the precondition
		if val2, err := v.spec(st, cl.Expr, sc); err == nil && !strings.Contains(val2.S, "(forall") {
			// (quantified preconditions are not re-assumed: they were just proved from
			// what is known, and quantifiers inside path guards only slow the solvers down)
			st.assume(val2.S)
		}
	}
	old := st.fork()
	if !fc.Pure {
		if ne := noescapeParams(fc); len(ne) > 0 {
			var esc []Value
			for i, a := range args {
				if i < n && ne[sig.Params().At(i).Name()] && v.havocCaptured(st, a) {
					continue
				}
				esc = append(esc, a)
			}
			v.escapeClosures(st, esc)
		} else {
			v.escapeClosures(st, args)
		}
		if mods := fc.Extra["modifies"]; len(mods) > 0 {
			// frame: only the listed cells (*p for pointer parameters p) change;
			// the callee's body is checked against the same frame
			na := v.c.freshName("alloc")
			st.declare(na, "Int")
			st.assume(sGe(na, st.alloc))
			st.alloc = na
			for _, p := range modifiedParams(mods) {
				if strings.HasSuffix(p, "[]") {
					// modifies xs[]: the elements of the array behind slice parameter xs
					pv, ok := vars[strings.TrimSuffix(p, "[]")]
					if !ok {
						sfail("modifies %s: no such parameter of %s", p, fc.FullName())
					}
					slt, ok := pv.T.Underlying().(*types.Slice)
					if !ok {
						sfail("modifies %s: not a slice", p)
					}
					et := v.substT(slt.Elem())
					name, h := v.elemHeap(st, et)
					na := v.c.freshName("modarr")
					st.declare(na, "(Array Int "+v.c.sortOf(et)+")")
					st.setHeap(name, sStore(h, sx("sref", pv.S), na))
					continue
				}
				pv, ok := vars[p]
				if !ok {
					sfail("modifies *%s: no such parameter of %s", p, fc.FullName())
				}
				pt, ok := pv.T.Underlying().(*types.Pointer)
				if !ok {
					sfail("modifies *%s: not a pointer", p)
				}
				et := v.substT(pt.Elem())
				h := st.heap(heapName(et), "(Array Int "+v.c.sortOf(et)+")")
				nv := st.freshVal("mod", et)
				st.setHeap(heapName(et), sStore(h, pv.S, nv.S))
			}
		} else {
			st.havocAllHeaps()
		}
		v.yieldShared(st)
	}
	var results []Value
	rts := v.resultTypes(call)
	// the callee may have allocated: results may refer to objects newer than anything known so far
	{
		na := v.c.freshName("alloc")
		st.declare(na, "Int")
		st.assume(sGe(na, st.alloc))
		st.alloc = na
	}
	post := map[string]Value{}
	for k, val := range vars {
		post[k] = val
	}
	for i, t := range rts {
		r := st.freshVal(fn.Name()+"_r", t)
		if fns := fc.Extra["fn"]; len(fns) > 0 && len(rts) == 1 {
			// the function is treated as a mathematical function of its arguments
			if sf := v.e.lookupSpec(pkg, fns[0]); sf != nil && sf.Body == nil && len(sf.Params) == len(args) {
				fv := v.applySpecFn(st, sf, args, &Scope{v: v, vars: vars, pkg: pkg, callee: true})
				st.assume(sEq(r.S, fv.S))
				if len(args) == 1 && isString(args[0].T) {
					// a function of a Go string depends on its content only
					sym := "spec!" + mangle(sf.Name)
					v.c.glob("congr:"+sym, fmt.Sprintf("(assert (forall ((a!g Str) (b!g Str)) (! (=> (str_eq a!g b!g) (= (%s a!g) (%s b!g))) :pattern ((%s a!g) (%s b!g)))))", sym, sym, sym, sym))
				}
				v.c.trusted[shortName(fc.FullName())+" is treated as a mathematical function of its arguments ("+fns[0]+")"] = true
			}
		}
		if _, ok := fc.Extra["functional"]; ok && !v.noFunctional {
			var all []Value
			if recv != nil {
				rv := *recv
				if sig.Recv() != nil && isInterface(sig.Recv().Type()) && !isInterface(rv.T) {
					// a method of an interface called on a type parameter / concrete value:
					// the functional symbol is declared over the interface type
					rv = Value{T: sig.Recv().Type(), S: v.c.toIface(rv)}
				}
				all = append(all, rv)
			}
			all = append(all, args...)
			st.assume(sEq(r.S, v.functionalApp(fc, i, t, all)))
		}
		results = append(results, r)
		rv := sig.Results().At(i)
		if rv.Name() != "" && rv.Name() != "_" {
			post[rv.Name()] = r
		}
		if i < len(fc.Results) {
			post[fc.Results[i]] = r
		}
		if len(rts) == 1 {
			post["result"] = r
		}
	}
	psc := &Scope{v: v, vars: post, pkg: pkg, old: old, oldVars: vars, callee: true}
	for _, cl := range fc.Ensures {
		val, err := v.spec(st, cl.Expr, psc)
		if err != nil {
			v.specError(cl, err)
			continue
		}
		st.assume(val.S)
	}
	return results
}

// ---------- builtins ----------

func (v *FnV) builtin(st *State, call *ast.CallExpr, name string, preArgs []Value) []Value {
	arg := func(i int) Value {
		if preArgs != nil {
			return preArgs[i]
		}
		return v.expr(st, call.Args[i])
	}
	rt := v.typeOf(call)
	switch name {
	case "len", "cap":
		a := arg(0)
		t := a.T
		if pt, ok := t.Underlying().(*types.Pointer); ok {
			t = pt.Elem()
		}
		switch u := t.Underlying().(type) {
		case *types.Basic:
			return []Value{{T: tInt, S: sx("slen", a.S)}}
		case *types.Slice:
			if name == "cap" {
				return []Value{{T: tInt, S: sx("slcap", a.S)}}
			}
			return []Value{{T: tInt, S: sx("sllen", a.S)}}
		case *types.Array:
			return []Value{{T: tInt, S: fmt.Sprint(u.Len())}}
		case *types.Map:
			v.c.glob("maplen", "(declare-fun maplen (Int Int) Int)")
			r := sx("maplen", a.S, fmt.Sprint(st.epoch))
			st.assume(sLe("0", r))
			return []Value{{T: tInt, S: r}}
		}
		r := st.freshVal("len", tInt)
		st.assume(sLe("0", r.S))
		return []Value{r}
	case "panic":
		if preArgs == nil {
			v.expr(st, call.Args[0])
		}
		if !v.fc.MayPanic {
			v.safety(st, "call:panic", call, "false", "explicit panic is unreachable")
		}
		st.dead = true
		return nil
	case "new":
		t := v.typeOf(call.Args[0])
		ref := v.alloc(st, "new")
		v.store(st, t, ref, v.c.zeroOf(t))
		switch typeKey(t) {
		case "math/big.Int":
			v.setBigInt(st, ref, "0")
		case "math/big.Rat":
			v.setBigRat(st, ref, "0.0")
		}
		return []Value{{T: rt, S: ref}}
	case "make":
		t := v.typeOf(call.Args[0])
		switch u := t.Underlying().(type) {
		case *types.Slice:
			n := arg(1)
			cp := n
			if len(call.Args) > 2 {
				cp = arg(2)
			}
			v.safety(st, "call:make", call, sAnd(sLe("0", n.S), sLe(n.S, cp.S), sLe(cp.S, "281474976710656")), "make: 0 <= len <= cap <= 2^48")
			ref := v.alloc(st, "make")
			elem := v.substT(u.Elem())
			name, h := v.elemHeap(st, elem)
			zero := v.c.zeroOf(elem)
			var arr string
			if _, isLit := litInt(zero); isLit || zero == "false" {
				arr = fmt.Sprintf("((as const (Array Int %s)) %s)", v.c.sortOf(elem), zero)
			} else {
				// cvc5 accepts only literal values in constant arrays: use a fresh array with a defining axiom
				arr = v.c.freshName("zeroarr")
				st.declare(arr, "(Array Int "+v.c.sortOf(elem)+")")
				st.axiom(fmt.Sprintf("(forall ((k!z Int)) (! (= (select %s k!z) %s) :pattern ((select %s k!z))))", arr, zero, arr))
			}
			st.setHeap(name, sStore(h, ref, arr))
			return []Value{{T: rt, S: fmt.Sprintf("(mkslice %s 0 %s %s)", ref, n.S, cp.S)}}
		case *types.Map:
			m := Value{T: rt, S: v.alloc(st, "map")}
			v.mapInit(st, u, m)
			return []Value{m}
		case *types.Chan:
			return []Value{{T: rt, S: v.alloc(st, "chan")}}
		}
	case "append":
		return []Value{v.appendBuiltin(st, call, preArgs, rt)}
	case "copy":
		dst, src := arg(0), arg(1)
		n := st.freshVal("copied", tInt)
		srcLen := sx("sllen", src.S)
		if isString(src.T) {
			srcLen = sx("slen", src.S)
		}
		st.assume(sEq(n.S, sIte(sLt(sx("sllen", dst.S), srcLen), sx("sllen", dst.S), srcLen)))
		if sl, ok := dst.T.Underlying().(*types.Slice); ok {
			v.writeCheck(st, sx("sref", dst.S), "copy destination")
			elem := v.substT(sl.Elem())
			name, h := v.elemHeap(st, elem)
			na := v.c.freshName("cp")
			es := v.c.sortOf(elem)
			st.declare(na, "(Array Int "+es+")")
			oldArr := sSelect(h, sx("sref", dst.S))
			var srcAt string
			if isString(src.T) {
				srcAt = fmt.Sprintf("(sat %s (- k!c (sloff %s)))", src.S, dst.S)
			} else {
				srcAt = fmt.Sprintf("(select (select %s (sref %s)) (+ (sloff %s) (- k!c (sloff %s))))", h, src.S, src.S, dst.S)
			}
			st.axiom(fmt.Sprintf("(forall ((k!c Int)) (! (= (select %s k!c) (ite (and (<= (sloff %s) k!c) (< k!c (+ (sloff %s) %s))) %s (select %s k!c))) :pattern ((select %s k!c))))",
				na, dst.S, dst.S, n.S, srcAt, oldArr, na))
			st.setHeap(name, sStore(h, sx("sref", dst.S), na))
		}
		return []Value{n}
	case "delete":
		m, k := arg(0), arg(1)
		if mt, ok := m.T.Underlying().(*types.Map); ok {
			v.mapDelete(st, mt, m, v.convert(st, k, mt.Key()))
		}
		return nil
	case "min", "max":
		a := arg(0)
		for i := 1; i < len(call.Args); i++ {
			b := arg(i)
			var c string
			if name == "min" {
				c = v.c.cmp(token.LSS, b, a)
			} else {
				c = v.c.cmp(token.GTR, b, a)
			}
			a = Value{T: rt, S: sIte(c, b.S, a.S)}
		}
		a.T = rt
		return []Value{a}
	case "close":
		arg(0)
		return nil
	case "recover":
		return []Value{{T: rt, S: "nilval"}}
	case "print", "println":
		return nil
	case "clear":
		arg(0)
		st.havocAllHeaps()
		return nil
	}
	v.abstract(call, "unsupported builtin "+name)
	return v.havocResults(st, call, name)
}

// append: fresh backing array holding the old elements followed by the new ones.
func (v *FnV) appendBuiltin(st *State, call *ast.CallExpr, preArgs []Value, rt types.Type) Value {
	var base Value
	if preArgs != nil {
		base = preArgs[0]
	} else {
		base = v.expr(st, call.Args[0])
	}
	sl, ok := rt.Underlying().(*types.Slice)
	if !ok {
		return v.havoc(st, "append", rt)
	}
	elem := v.substT(sl.Elem())
	es := v.c.sortOf(elem)
	var extra []Value
	var spread *Value
	for i := 1; i < len(call.Args); i++ {
		var a Value
		if preArgs != nil {
			a = preArgs[i]
		} else {
			a = v.expr(st, call.Args[i])
		}
		if call.Ellipsis.IsValid() && i == len(call.Args)-1 {
			spread = &a
		} else {
			extra = append(extra, v.convert(st, a, elem))
		}
	}
	name, h := v.elemHeap(st, elem)
	v.appendCheck(st, base)
	ref := v.alloc(st, "append")
	oldLen := st.define("oldlen", "Int", sx("sllen", base.S))
	na := v.c.freshName("app")
	st.declare(na, "(Array Int "+es+")")
	// old elements copied to offset 0
	st.axiom(fmt.Sprintf("(forall ((k!c Int)) (! (=> (and (<= 0 k!c) (< k!c %s)) (= (select %s k!c) (select (select %s (sref %s)) (+ (sloff %s) k!c)))) :pattern ((select %s k!c))))",
		oldLen, na, h, base.S, base.S, na))
	newLen := oldLen
	for i, e := range extra {
		st.assume(sEq(sSelect(na, sAdd(oldLen, fmt.Sprint(i))), e.S))
	}
	newLen = sAdd(oldLen, fmt.Sprint(len(extra)))
	if spread != nil {
		var sl2, at string
		if isString(spread.T) {
			sl2 = sx("slen", spread.S)
			at = fmt.Sprintf("(sat %s k!c)", spread.S)
		} else {
			sl2 = sx("sllen", spread.S)
			at = fmt.Sprintf("(select (select %s (sref %s)) (+ (sloff %s) k!c))", h, spread.S, spread.S)
		}
		st.axiom(fmt.Sprintf("(forall ((k!c Int)) (! (=> (and (<= 0 k!c) (< k!c %s)) (= (select %s (+ %s k!c)) %s)) :pattern ((select %s (+ %s k!c)))))",
			sl2, na, newLen, at, na, newLen))
		newLen = sAdd(newLen, sl2)
	}
	st.setHeap(name, sStore(st.heaps[name], ref, na))
	if st.ghost != nil && len(call.Args) > 0 {
		// log kind "append:<variable>": appends to that variable (first appended element = callarg)
		if id, ok := unparen(call.Args[0]).(*ast.Ident); ok {
			if v.logKind("append:"+id.Name) >= 0 {
				v.logCall(st, &callInfo{full: "append:" + id.Name, args: extra}, nil)
			}
			// "append:<variable>.<field>": elements are pointers to structs; callarg is the appended
			// pointer and callarg1 the value of that field at the time of the append
			for _, k := range v.logKinds {
				pre := "append:" + id.Name + "."
				if !strings.HasPrefix(k, pre) || len(extra) != 1 {
					continue
				}
				pt, ok := extra[0].T.Underlying().(*types.Pointer)
				if !ok {
					continue
				}
				path, ft, ok := findField(pt.Elem(), k[len(pre):])
				if !ok || len(path) != 1 {
					continue
				}
				sv := v.load(st, v.substT(pt.Elem()), extra[0].S)
				fv := Value{T: ft, S: v.c.fieldGet(v.substT(pt.Elem()), sv, path[0])}
				v.logCall(st, &callInfo{full: k, args: []Value{extra[0], fv}}, nil)
			}
		}
	}
	res := v.c.freshName("appended")
	st.declare(res, sortSlice)
	st.assume(sAnd(sEq(sx("sref", res), ref), sEq(sx("sloff", res), "0"), sEq(sx("sllen", res), newLen), sLe(newLen, sx("slcap", res))))
	return Value{T: rt, S: res}
}

// ---------- concurrency stubs (task-protocol mode is layered on top later) ----------

func (v *FnV) yield(st *State) {
	st.havocAllHeaps()
	v.yieldShared(st)
}

func (v *FnV) yieldShared(st *State) {
	// variables captured by goroutines / escaping closures are havocked at yield points
	for obj := range v.shared {
		if cur, ok := st.env[obj]; ok && !v.boxed[obj] {
			st.env[obj] = st.freshVal(obj.Name(), cur.T)
		}
	}
}

func (v *FnV) goStmt(st *State, x *ast.GoStmt) {
	var args []Value
	for _, a := range x.Call.Args {
		args = append(args, v.expr(st, a))
	}
	if lit, ok := unparen(x.Call.Fun).(*ast.FuncLit); ok && v.e.cs.Funcs[v.e.litName[lit]] != nil {
		// the goroutine body has a contract of its own (<function>$<k>): it is verified separately
		v.escapeClosures(st, []Value{v.expr(st, lit)})
	} else if lit, ok := unparen(x.Call.Fun).(*ast.FuncLit); ok {
		// The goroutine body is executed once as a TASK on a copy of the state in
		// which everything shared has been havocked: its panic-freedom and call
		// obligations then hold for whatever the other goroutines did before it
		// started. Nothing is concluded about interleavings.
		v.abstract(x, "go statement: body verified as a task started from a havocked shared state; interleavings are not modelled")
		task := st.fork()
		v.yield(task)
		for _, obj := range capturedAssigned(lit, v.info()) {
			if cur, ok := task.env[obj]; ok && !v.boxed[obj] {
				task.env[obj] = task.freshVal(obj.Name(), cur.T)
			}
		}
		v.inTask++
		v.inlineLit(task, lit, v.fr(), args)
		v.inTask--
		// variables the task assigns are unknown to the spawner from now on
		v.escapeClosures(st, []Value{v.expr(st, lit)})
	} else {
		v.abstract(x, "go statement (goroutine body not executed; shared state havocked)")
	}
	v.logCall(st, &callInfo{full: "go", args: args}, nil)
	v.yield(st)
}

func (v *FnV) selectStmt(st *State, x *ast.SelectStmt) Flow {
	v.abstract(x, "select statement (all ready cases explored, channel values havoc)")
	v.yield(st)
	var out Flow
	base := len(st.items)
	var ends []*State
	for _, c := range x.Body.List {
		cc := c.(*ast.CommClause)
		s := st.fork()
		if cc.Comm != nil {
			f := v.stmt(s, cc.Comm)
			if f.normal == nil {
				continue
			}
			s = f.normal
		}
		f := v.block(s, cc.Body)
		for _, ex := range f.exits {
			if ex.kind == exBreak && ex.label == "" {
				ends = append(ends, ex.st)
			} else {
				out.exits = append(out.exits, ex)
			}
		}
		if f.normal != nil {
			ends = append(ends, f.normal)
		}
	}
	// paths of a select are not mutually exclusive by guard; give each a distinct choice marker
	ch := st.c.freshName("selchoice")
	for i, s := range ends {
		if i == 0 {
			// declare in all
		}
		_ = s
	}
	_ = ch
	if len(ends) == 0 {
		return out
	}
	// merge with explicit choice variable
	choice := v.c.freshName("sel")
	for i, s := range ends {
		s.items = append(s.items[:base:base], append([]Item{{Decl: fmt.Sprintf("(declare-const %s!%d Bool)", choice, i)}, {Assume: fmt.Sprintf("%s!%d", choice, i)}}, s.items[base:]...)...)
	}
	for i, s := range ends {
		for j := range ends {
			if j < i {
				s.assume(sNot(fmt.Sprintf("%s!%d", choice, j)))
			}
		}
	}
	// all choice constants must be declared in the merged script: mergeStates keeps decls of every branch
	out.normal = v.merge(base, ends...)
	return out
}

var _ = strings.Contains
