package main

// Ghost parameters. `ghost NAME TYPE` in a function's contract declares a
// specification-only parameter: while the function is verified it is an
// arbitrary value of the type (so the contract is proved for every choice);
// at a call site the CALLER chooses the value with
//     ghostarg CALLEE NAME = EXPR
// in its own contract (EXPR is evaluated in the caller's state at the call and
// may mention the locals in scope there). A call without a ghostarg gets an
// unconstrained value, so a precondition that mentions the ghost parameter is
// then not provable - never assumed.

import (
	"go/ast"
	"go/types"
	"strings"
)

func ghostDecls(fc *FuncContract) [][2]string {
	var out [][2]string
	if fc == nil {
		return nil
	}
	for _, l := range fc.Extra["ghost"] {
		fs := strings.Fields(l)
		if len(fs) == 2 {
			out = append(out, [2]string{fs[0], fs[1]})
		}
	}
	return out
}

func ghostType(name string) types.Type {
	switch name {
	case "int":
		return tInt
	case "string":
		return tString
	case "bool":
		return tBool
	}
	return nil
}

// bindGhosts: entry of the function under verification.
func (v *FnV) bindGhosts(st *State, fc *FuncContract, scope map[string]Value) {
	v.ghostVars = map[string]Value{}
	for _, g := range ghostDecls(fc) {
		t := ghostType(g[1])
		if t == nil {
			v.specError(&Clause{Kind: "ghost", Text: g[0] + " " + g[1], Line: fc.Where}, errString("ghost parameter type must be int, string or bool"))
			continue
		}
		val := st.freshVal("ghost_"+g[0], t)
		scope[g[0]] = val
		v.ghostVars[g[0]] = val
	}
}

type errString string

func (e errString) Error() string { return string(e) }

// ghostArgs: at a call to a function whose contract has ghost parameters.
func (v *FnV) ghostArgs(st *State, call *ast.CallExpr, fc *FuncContract, vars map[string]Value) {
	decls := ghostDecls(fc)
	if len(decls) == 0 {
		return
	}
	callee := shortName(fc.FullName())
	if k := strings.LastIndex(callee, "."); k >= 0 && !strings.Contains(callee[:k], ".") {
		// pkg.fn -> fn ; pkg.T.m stays T.m below
	}
	for _, g := range decls {
		t := ghostType(g[1])
		if t == nil {
			continue
		}
		var chosen *Value
		if v.fc != nil && len(v.frames) == 1 {
			for _, l := range v.fc.Extra["ghostarg"] {
				// CALLEE NAME = EXPR
				eq := strings.Index(l, "=")
				if eq < 0 {
					continue
				}
				fs := strings.Fields(l[:eq])
				if len(fs) != 2 || fs[1] != g[0] {
					continue
				}
				if !(callee == fs[0] || strings.HasSuffix(callee, "."+fs[0])) {
					continue
				}
				text := strings.TrimSpace(l[eq+1:])
				cl := &Clause{Kind: "ghostarg", Text: l, Line: v.fc.Where}
				e, err := parseSpec(text)
				if err != nil {
					v.specError(cl, err)
					continue
				}
				sc := &Scope{v: v, vars: map[string]Value{}, pkg: v.fr().pkg, pos: call.Pos(), old: v.entry, oldVars: v.entryVars()}
				val, err := v.spec(st, e, sc)
				if err != nil {
					v.specError(cl, err)
					continue
				}
				chosen = &val
			}
		}
		if chosen == nil {
			fv := st.freshVal("ghostarg_"+g[0], t)
			chosen = &fv
		}
		vars[g[0]] = *chosen
	}
}
