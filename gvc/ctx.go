package main

import (
	"fmt"
	"go/token"
	"go/types"
	"sort"
	"strings"
)

// Value is a symbolic Go value: one SMT term plus its Go type.
// T == nil means "untyped spec integer" (SMT Int).
type Value struct {
	T types.Type
	S string
}

// Item is one line of the path script: a declaration or an assumption.
type Item struct {
	Decl   string // complete SMT command, e.g. (declare-const x Int)
	Assume string // Bool term
}

// Ctx is global to one gvc run: sorts, tags, fresh names.
type Ctx struct {
	fset         *token.FileSet
	fresh        int
	sortDecl     []string          // datatype declarations in dependency order
	sortSeen     map[string]string // type key -> sort name
	structOf     map[string]*types.Struct
	globDecl     []string // uninterpreted functions and axioms, in order of first use
	globSeen     map[string]bool
	tags         map[string]int // type string -> tag id
	tagTypes     []types.Type
	epochs       int
	bv           bool // current function is encoded with bit-vectors (pure int functions only)
	abstractions map[string]bool
	trusted      map[string]bool
	ifaces       map[string]types.Type
	litByName    map[string]string
}

func newCtx(fset *token.FileSet) *Ctx {
	return &Ctx{fset: fset, sortSeen: map[string]string{}, structOf: map[string]*types.Struct{},
		globSeen: map[string]bool{}, tags: map[string]int{}, abstractions: map[string]bool{}, trusted: map[string]bool{}, ifaces: map[string]types.Type{}, litByName: map[string]string{}}
}

func (c *Ctx) freshName(hint string) string {
	c.fresh++
	hint = mangle(hint)
	if len(hint) > 24 {
		hint = hint[:24]
	}
	return fmt.Sprintf("%s!%d", hint, c.fresh)
}

func (c *Ctx) glob(key string, decls ...string) {
	if c.globSeen[key] {
		return
	}
	c.globSeen[key] = true
	c.globDecl = append(c.globDecl, decls...)
}

const (
	sortStr   = "Str"
	sortSlice = "Slice"
	sortVal   = "Val"
	sortF64   = "F64"
	sortF32   = "F32"
)

const preludeBase = `(set-option :produce-models true)
(set-logic ALL)
(define-sort F64 () (_ FloatingPoint 11 53))
(define-sort F32 () (_ FloatingPoint 8 24))
(declare-datatypes ((Str 0)) (((mkstr (sbase (Array Int Int)) (soff Int) (slen Int)))))
(declare-datatypes ((Slice 0)) (((mkslice (sref Int) (sloff Int) (sllen Int) (slcap Int)))))
(declare-datatypes ((Val 0)) (((mkval (vtag Int) (vint Int) (vfp F64) (vstr Str) (vbool Bool)))))
(define-fun sat ((s Str) (i Int)) Int (select (sbase s) (+ (soff s) i)))
(define-fun str_eq ((a Str) (b Str)) Bool (and (= (slen a) (slen b)) (forall ((k!q Int)) (=> (and (<= 0 k!q) (< k!q (slen a))) (= (sat a k!q) (sat b k!q))))))
(define-fun wrap64 ((x Int)) Int (- (mod (+ x 9223372036854775808) 18446744073709551616) 9223372036854775808))
(define-fun emptybase () (Array Int Int) ((as const (Array Int Int)) 0))
(define-fun emptystr () Str (mkstr emptybase 0 0))
(define-fun fpzero () F64 ((_ to_fp 11 53) RNE 0.0))
(define-fun nilval () Val (mkval 0 0 fpzero emptystr false))
(define-fun nilslice () Slice (mkslice 0 0 0 0))
(define-fun tagclass ((t Int)) Int (mod t 8))
(define-fun val_eq ((a Val) (b Val)) Bool (and (= (vtag a) (vtag b))
  (ite (= (tagclass (vtag a)) 2) (fp.eq (vfp a) (vfp b))
  (ite (= (tagclass (vtag a)) 3) (str_eq (vstr a) (vstr b))
  (ite (= (tagclass (vtag a)) 4) (= (vbool a) (vbool b))
  (ite (= (tagclass (vtag a)) 0) true (= (vint a) (vint b))))))))
`

// Tag classes (tag = id*8 + class).
const (
	clsNil    = 0
	clsInt    = 1 // ints, pointers, refs, funcs(uncomparable handled by clsUncmp)
	clsFloat  = 2
	clsStr    = 3
	clsBool   = 4
	clsUncmp  = 5 // slices, maps, funcs, structs containing those
	clsStruct = 6 // comparable struct boxed by id
)

func typeKey(t types.Type) string {
	return types.TypeString(t, func(p *types.Package) string { return p.Path() })
}

func isUncomparable(t types.Type) bool { return !types.Comparable(t) }

func (c *Ctx) tagOf(t types.Type) int {
	t = types.Unalias(t)
	k := typeKey(t)
	if id, ok := c.tags[k]; ok {
		return id
	}
	cls := clsInt
	switch u := t.Underlying().(type) {
	case *types.Basic:
		switch {
		case u.Info()&types.IsFloat != 0:
			cls = clsFloat
		case u.Info()&types.IsString != 0:
			cls = clsStr
		case u.Info()&types.IsBoolean != 0:
			cls = clsBool
		}
	case *types.Struct, *types.Array:
		if isUncomparable(t) {
			cls = clsUncmp
		} else {
			cls = clsStruct
		}
	case *types.Slice, *types.Map, *types.Signature:
		cls = clsUncmp
	}
	id := (len(c.tagTypes)+1)*8 + cls
	c.tags[k] = id
	c.tagTypes = append(c.tagTypes, t)
	return id
}

func isInterface(t types.Type) bool {
	if t == nil {
		return false
	}
	_, ok := t.Underlying().(*types.Interface)
	if _, tp := types.Unalias(t).(*types.TypeParam); tp {
		return false
	}
	return ok
}

func isString(t types.Type) bool {
	if t == nil {
		return false
	}
	b, ok := t.Underlying().(*types.Basic)
	return ok && b.Info()&types.IsString != 0
}

func isIntType(t types.Type) bool {
	if t == nil {
		return true
	}
	b, ok := t.Underlying().(*types.Basic)
	return ok && b.Info()&types.IsInteger != 0
}

func isFloatType(t types.Type) bool {
	if t == nil {
		return false
	}
	b, ok := t.Underlying().(*types.Basic)
	return ok && b.Info()&types.IsFloat != 0
}

func isBoolType(t types.Type) bool {
	if t == nil {
		return false
	}
	b, ok := t.Underlying().(*types.Basic)
	return ok && b.Info()&types.IsBoolean != 0
}

// intInfo returns bit width and signedness of an integer type.
func intInfo(t types.Type) (bits int, signed bool) {
	if t == nil {
		return 0, true
	}
	b, ok := t.Underlying().(*types.Basic)
	if !ok {
		return 0, true
	}
	switch b.Kind() {
	case types.Int, types.Int64:
		return 64, true
	case types.Int32:
		return 32, true
	case types.Int16:
		return 16, true
	case types.Int8:
		return 8, true
	case types.Uint, types.Uint64, types.Uintptr:
		return 64, false
	case types.Uint32:
		return 32, false
	case types.Uint16:
		return 16, false
	case types.Uint8:
		return 8, false
	case types.UntypedInt, types.UntypedRune:
		return 0, true
	}
	return 0, true
}

// sortOf maps a Go type to an SMT sort, declaring datatypes on demand.
func (c *Ctx) sortOf(t types.Type) string {
	if t == nil {
		return "Int"
	}
	t = types.Unalias(t)
	switch u := t.(type) {
	case *types.TypeParam:
		name := "TP_" + mangle(u.Obj().Name())
		c.glob("sort:"+name, "(declare-sort "+name+" 0)")
		return name
	case *types.Named:
		if st, ok := u.Underlying().(*types.Struct); ok {
			return c.structSort(typeKey(u), st)
		}
		return c.sortOf(u.Underlying())
	case *types.Basic:
		switch {
		case u.Info()&types.IsInteger != 0:
			if c.bv {
				bits, _ := intInfo(u)
				if bits == 0 {
					bits = 64
				}
				return fmt.Sprintf("(_ BitVec %d)", bits)
			}
			return "Int"
		case u.Info()&types.IsBoolean != 0:
			return "Bool"
		case u.Info()&types.IsString != 0:
			return sortStr
		case u.Kind() == types.Float32:
			return sortF32
		case u.Info()&types.IsFloat != 0:
			return sortF64
		case u.Kind() == types.UnsafePointer, u.Kind() == types.UntypedNil:
			return "Int"
		case u.Info()&types.IsComplex != 0:
			c.glob("sort:Complex", "(declare-sort Complex 0)")
			return "Complex"
		}
		return "Int"
	case *types.Pointer, *types.Map, *types.Chan, *types.Signature:
		return "Int"
	case *types.Slice:
		return sortSlice
	case *types.Array:
		return "(Array Int " + c.sortOf(u.Elem()) + ")"
	case *types.Struct:
		return c.structSort("anon:"+typeKey(u), u)
	case *types.Interface:
		return sortVal
	case *types.Tuple:
		return "Int"
	}
	return "Int"
}

func (c *Ctx) structSort(key string, st *types.Struct) string {
	if s, ok := c.sortSeen[key]; ok {
		return s
	}
	name := "S_" + mangle(key)
	c.sortSeen[key] = name
	c.structOf[name] = st
	var fields []string
	for i := 0; i < st.NumFields(); i++ {
		f := st.Field(i)
		fields = append(fields, fmt.Sprintf("(%s %s)", fieldSel(name, f.Name(), i), c.sortOf(f.Type())))
	}
	if len(fields) == 0 {
		fields = append(fields, fmt.Sprintf("(%s!dummy Int)", name))
	}
	c.globDecl = append(c.globDecl, fmt.Sprintf("(declare-datatypes ((%s 0)) (((mk!%s %s))))", name, name, strings.Join(fields, " ")))
	return name
}

func fieldSel(sortName, field string, i int) string {
	if field == "_" {
		field = fmt.Sprintf("blank%d", i)
	}
	return sortName + "." + field
}

func structType(t types.Type) *types.Struct {
	if t == nil {
		return nil
	}
	st, _ := t.Underlying().(*types.Struct)
	return st
}

// mkStruct builds a struct term from field terms.
func (c *Ctx) mkStruct(t types.Type, fields []string) string {
	name := c.sortOf(t)
	if len(fields) == 0 {
		return sx("mk!"+name, "0")
	}
	return sx("mk!"+name, fields...)
}

func (c *Ctx) fieldGet(t types.Type, s string, i int) string {
	st := structType(t)
	name := c.sortOf(t)
	return sx(fieldSel(name, st.Field(i).Name(), i), s)
}

func (c *Ctx) fieldSet(t types.Type, s string, i int, v string) string {
	st := structType(t)
	fs := make([]string, st.NumFields())
	for k := range fs {
		if k == i {
			fs[k] = v
		} else {
			fs[k] = c.fieldGet(t, s, k)
		}
	}
	return c.mkStruct(t, fs)
}

// zeroOf returns the zero value term of a type.
func (c *Ctx) zeroOf(t types.Type) string {
	if t == nil {
		return "0"
	}
	t = types.Unalias(t)
	switch u := t.Underlying().(type) {
	case *types.Basic:
		switch {
		case u.Info()&types.IsInteger != 0:
			return c.intLit(t, 0)
		case u.Info()&types.IsBoolean != 0:
			return "false"
		case u.Info()&types.IsString != 0:
			return "emptystr"
		case u.Kind() == types.Float32:
			return "((_ to_fp 8 24) RNE 0.0)"
		case u.Info()&types.IsFloat != 0:
			return "fpzero"
		}
		return "0"
	case *types.Slice:
		return "nilslice"
	case *types.Interface:
		if _, ok := t.(*types.TypeParam); ok {
			break
		}
		return "nilval"
	case *types.Struct:
		fs := make([]string, u.NumFields())
		for i := range fs {
			fs[i] = c.zeroOf(u.Field(i).Type())
		}
		return c.mkStruct(t, fs)
	case *types.Array:
		z := c.zeroOf(u.Elem())
		// cvc5 accepts only literal VALUES in constant arrays: spell the nil interface / empty string out
		z = strings.ReplaceAll(z, "nilval", "(mkval 0 0 (_ +zero 11 53) (mkstr ((as const (Array Int Int)) 0) 0 0) false)")
		z = strings.ReplaceAll(z, "emptystr", "(mkstr ((as const (Array Int Int)) 0) 0 0)")
		z = strings.ReplaceAll(z, "nilslice", "(mkslice 0 0 0 0)")
		z = strings.ReplaceAll(z, "fpzero", "(_ +zero 11 53)")
		return fmt.Sprintf("((as const %s) %s)", c.sortOf(t), z)
	case *types.Pointer, *types.Map, *types.Chan, *types.Signature:
		return "0"
	}
	if _, ok := t.(*types.TypeParam); ok {
		name := c.sortOf(t)
		z := "zero!" + name
		c.glob("zero:"+name, fmt.Sprintf("(declare-const %s %s)", z, name))
		return z
	}
	return "0"
}

func (c *Ctx) intLit(t types.Type, n int64) string {
	if c.bv && t != nil {
		bits, _ := intInfo(t)
		if bits == 0 {
			bits = 64
		}
		return bvLit(n, bits)
	}
	return sInt(n)
}

func bvLit(n int64, bits int) string {
	var u uint64 = uint64(n)
	if bits < 64 {
		u &= (1 << uint(bits)) - 1
	}
	return fmt.Sprintf("(_ bv%d %d)", u, bits)
}

// rangeOf returns the type-invariant assumption for a term of type t
// ("true" when there is none).
func (c *Ctx) rangeOf(t types.Type, s string, alloc string) string {
	if t == nil {
		return "true"
	}
	t = types.Unalias(t)
	switch u := t.Underlying().(type) {
	case *types.Basic:
		if u.Info()&types.IsInteger != 0 {
			if c.bv {
				return "true"
			}
			bits, signed := intInfo(t)
			if bits == 0 {
				return "true"
			}
			lo, hi := intBounds(bits, signed)
			return sAnd(sLe(lo, s), sLe(s, hi))
		}
		if u.Info()&types.IsString != 0 {
			return sAnd(sLe("0", sx("soff", s)), sLe("0", sx("slen", s)), sLe(sx("slen", s), "281474976710656"), sLe(sx("soff", s), "281474976710656"))
		}
	case *types.Slice:
		return sAnd(sLe("0", sx("sref", s)), sLe("0", sx("sloff", s)), sLe("0", sx("sllen", s)), sLe(sx("sllen", s), sx("slcap", s)),
			sLe(sx("slcap", s), "281474976710656"), sLe(sx("sloff", s), "281474976710656"),
			sImp(sEq(sx("sref", s), "0"), sEq(sx("slcap", s), "0")), sLe(sx("sref", s), alloc))
	case *types.Pointer, *types.Map, *types.Chan, *types.Signature:
		return sAnd(sLe("0", s), sLe(s, alloc))
	case *types.Struct:
		var parts []string
		for i := 0; i < u.NumFields(); i++ {
			parts = append(parts, c.rangeOf(u.Field(i).Type(), c.fieldGet(t, s, i), alloc))
		}
		return sAnd(parts...)
	case *types.Interface:
		if _, ok := t.(*types.TypeParam); ok {
			return "true"
		}
		impl := "true"
		if u.NumMethods() > 0 {
			// a non-nil value of a non-empty interface type has a dynamic type implementing it
			impl = sImp(sNot(sEq(sx("vtag", s), "0")), sx(c.implPred(t), sx("vtag", s)))
		}
		return sAnd(sLe("0", sx("vtag", s)), c.rangeOf(types.Typ[types.String], sx("vstr", s), alloc),
			sImp(sEq(sx("vtag", s), "0"), sEq(s, "nilval")), impl)
	}
	return "true"
}

func intBounds(bits int, signed bool) (lo, hi string) {
	if signed {
		switch bits {
		case 64:
			return "(- 9223372036854775808)", "9223372036854775807"
		case 32:
			return "(- 2147483648)", "2147483647"
		case 16:
			return "(- 32768)", "32767"
		case 8:
			return "(- 128)", "127"
		}
	}
	switch bits {
	case 64:
		return "0", "18446744073709551615"
	case 32:
		return "0", "4294967295"
	case 16:
		return "0", "65535"
	case 8:
		return "0", "255"
	}
	return "0", "0"
}

// State is one symbolic path (possibly a merge of several).
type State struct {
	c      *Ctx
	items  []Item
	env    map[types.Object]Value
	heaps  map[string]string // heap name -> current array term
	hsort  map[string]string // heap name -> sort
	alloc  string            // allocation counter term
	epoch  int               // heap epoch: heaps not in the map are named <heap>!e<epoch>
	dead   bool
	quiet  bool // inside a quantifier body: no assumptions or definitions may be added
	defers []deferRec
	ghost  map[string]string // ghost state of the call log (lgN, lgK, ..., cnt:<kind>); nil when the log is off
}

// ghostSort gives the SMT sort of a ghost-state component.
func ghostSort(k string) string {
	switch k {
	case "lgK", "lgF", "lgI":
		return "(Array Int Int)"
	case "lgR", "lgE", "lgA", "lgB", "lgD":
		return "(Array Int " + sortVal + ")"
	}
	return "Int"
}

func (s *State) fork() *State {
	n := &State{c: s.c, alloc: s.alloc, dead: s.dead, epoch: s.epoch, quiet: s.quiet, defers: s.defers}
	if s.ghost != nil {
		n.ghost = make(map[string]string, len(s.ghost))
		for k, v := range s.ghost {
			n.ghost[k] = v
		}
	}
	n.items = make([]Item, len(s.items), len(s.items)+16)
	copy(n.items, s.items)
	n.env = make(map[types.Object]Value, len(s.env))
	for k, v := range s.env {
		n.env[k] = v
	}
	n.heaps = make(map[string]string, len(s.heaps))
	for k, v := range s.heaps {
		n.heaps[k] = v
	}
	n.hsort = s.hsort // shared, append-only
	return n
}

func (s *State) assume(t string) {
	if t == "true" || s.quiet {
		return
	}
	s.items = append(s.items, Item{Assume: t})
}

// axiom records a defining fact about a FRESH symbol (a fresh array holding the
// result of a concatenation, append, copy, ...). Such a fact is satisfiable
// whatever the other symbols are, so it holds unconditionally and is kept at
// top level when paths are merged (quantifiers inside path guards defeat
// pattern-based instantiation).
func (s *State) axiom(t string) {
	if t == "true" || s.quiet {
		return
	}
	s.items = append(s.items, Item{Decl: "(assert " + t + ")"})
}

func (s *State) declare(name, sort string) {
	s.items = append(s.items, Item{Decl: fmt.Sprintf("(declare-const %s %s)", name, sort)})
}

// define introduces a named abbreviation for a term.
func (s *State) define(hint, sort, term string) string {
	if len(term) < 48 || s.quiet {
		return term
	}
	n := s.c.freshName(hint)
	s.items = append(s.items, Item{Decl: fmt.Sprintf("(define-fun %s () %s %s)", n, sort, term)})
	return n
}

// freshVal declares a fresh symbolic value of type t with its range assumption.
func (s *State) freshVal(hint string, t types.Type) Value {
	n := s.c.freshName(hint)
	s.declare(n, s.c.sortOf(t))
	s.assume(s.c.rangeOf(t, n, s.alloc))
	return Value{T: t, S: n}
}

// heap returns the current term of a heap, declaring it on first use.
func (s *State) heap(name, sort string) string {
	if h, ok := s.heaps[name]; ok {
		return h
	}
	// First use in this epoch: a global constant so that all paths share it.
	s.hsort[name] = sort
	init := s.epochHeap(name)
	s.heaps[name] = init
	return init
}

func (s *State) epochHeap(name string) string {
	init := fmt.Sprintf("%s!e%d", name, s.epoch)
	s.c.glob("heap:"+init, fmt.Sprintf("(declare-const %s %s)", init, s.hsort[name]))
	return init
}

func (s *State) setHeap(name, term string) {
	sort := s.hsort[name]
	s.heaps[name] = s.define(name, sort, term)
}

func (s *State) havocHeap(name string) {
	sort, ok := s.hsort[name]
	if !ok {
		return
	}
	n := s.c.freshName(name)
	s.declare(n, sort)
	s.heaps[name] = n
}

func (s *State) havocAllHeaps() {
	s.c.epochs++
	s.epoch = s.c.epochs
	s.heaps = map[string]string{}
}

// mergeStates merges path states that were forked from a common state whose
// script had baseLen items. Values that differ become ite chains over path guards.
func mergeStates(base int, sts []*State) *State {
	var live []*State
	for _, s := range sts {
		if s != nil && !s.dead {
			live = append(live, s)
		}
	}
	if len(live) == 0 {
		if len(sts) > 0 && sts[0] != nil {
			d := sts[0].fork()
			d.dead = true
			return d
		}
		return nil
	}
	if len(live) == 1 {
		return live[0]
	}
	c := live[0].c
	m := &State{c: c, hsort: live[0].hsort}
	m.items = append(m.items, live[0].items[:base]...)
	guards := make([]string, len(live))
	seenDecl := map[string]bool{}
	for i, s := range live {
		var as []string
		for _, it := range s.items[base:] {
			if it.Decl != "" {
				// states forked after base share declarations: keep one copy
				if !seenDecl[it.Decl] {
					seenDecl[it.Decl] = true
					m.items = append(m.items, it)
				}
			} else {
				as = append(as, it.Assume)
			}
		}
		g := sAnd(as...)
		if len(g) > 40 {
			n := c.freshName("guard")
			m.items = append(m.items, Item{Decl: fmt.Sprintf("(define-fun %s () Bool %s)", n, g)})
			g = n
		}
		guards[i] = g
	}
	m.assume(sOr(guards...))
	pick := func(sort string, get func(*State) (string, bool)) (string, bool) {
		// returns merged term; ok=false if some state lacks it
		var terms []string
		same := true
		for _, s := range live {
			t, ok := get(s)
			if !ok {
				return "", false
			}
			if len(terms) > 0 && t != terms[0] {
				same = false
			}
			terms = append(terms, t)
		}
		if same {
			return terms[0], true
		}
		r := terms[len(terms)-1]
		for i := len(terms) - 2; i >= 0; i-- {
			r = sIte(guards[i], terms[i], r)
		}
		n := c.freshName("m")
		m.items = append(m.items, Item{Decl: fmt.Sprintf("(define-fun %s () %s %s)", n, sort, r)})
		return n, true
	}
	m.env = map[types.Object]Value{}
	// deterministic order
	var objs []types.Object
	for o := range live[0].env {
		objs = append(objs, o)
	}
	sort.Slice(objs, func(i, j int) bool {
		if objs[i].Pos() != objs[j].Pos() {
			return objs[i].Pos() < objs[j].Pos()
		}
		return objs[i].Name() < objs[j].Name()
	})
	for _, o := range objs {
		v0 := live[0].env[o]
		// the same parameter object of a generic function inlined at different
		// instantiations may hold values of different sorts: such a variable is dead here
		sameSort := true
		for _, s := range live {
			if v, ok := s.env[o]; ok && c.sortOf(v.T) != c.sortOf(v0.T) {
				sameSort = false
			}
		}
		if !sameSort {
			continue
		}
		t, ok := pick(c.sortOf(v0.T), func(s *State) (string, bool) { v, ok := s.env[o]; return v.S, ok })
		if ok {
			m.env[o] = Value{T: v0.T, S: t}
		}
	}
	m.heaps = map[string]string{}
	var hn []string
	for k := range live[0].hsort {
		hn = append(hn, k)
	}
	sort.Strings(hn)
	for _, k := range hn {
		k := k
		t, _ := pick(live[0].hsort[k], func(s *State) (string, bool) {
			if h, ok := s.heaps[k]; ok {
				return h, true
			}
			return s.epochHeap(k), true
		})
		m.heaps[k] = t
	}
	m.epoch = live[0].epoch
	for _, s := range live {
		if s.epoch != m.epoch {
			c.epochs++
			m.epoch = c.epochs
			break
		}
	}
	m.alloc, _ = pick("Int", func(s *State) (string, bool) { return s.alloc, true })
	// deferred calls: the common prefix stays unconditional; a defer registered on some paths only
	// runs under that path's guard
	{
		n := len(live[0].defers)
		for _, s := range live {
			k := 0
			for k < n && k < len(s.defers) && s.defers[k].lit == live[0].defers[k].lit && s.defers[k].call == live[0].defers[k].call && s.defers[k].cond == live[0].defers[k].cond {
				k++
			}
			n = k
		}
		m.defers = append([]deferRec(nil), live[0].defers[:n]...)
		for i, s := range live {
			for _, d := range s.defers[n:] {
				d2 := d
				if d2.cond == "" {
					d2.cond = guards[i]
				} else {
					d2.cond = sAnd(d2.cond, guards[i])
				}
				m.defers = append(m.defers, d2)
			}
		}
	}
	if live[0].ghost != nil {
		m.ghost = map[string]string{}
		var gk []string
		for k := range live[0].ghost {
			gk = append(gk, k)
		}
		sort.Strings(gk)
		for _, k := range gk {
			k := k
			if t, ok := pick(ghostSort(k), func(s *State) (string, bool) { g, ok := s.ghost[k]; return g, ok }); ok {
				m.ghost[k] = t
			}
		}
	}
	return m
}
