package main

import (
	"fmt"
	"go/ast"
	"go/token"
	"go/types"
	"math/big"
)

type stdModel struct {
	pure   bool
	f      func(v *FnV, st *State, call *ast.CallExpr, recv *Value, args []Value) []Value
	norecv bool
}

func init() {
	noop := func(v *FnV, st *State, call *ast.CallExpr, recv *Value, args []Value) []Value { return nil }
	for _, n := range []string{"sync.Mutex.Lock", "sync.Mutex.Unlock", "sync.RWMutex.Lock", "sync.RWMutex.Unlock", "sync.RWMutex.RLock", "sync.RWMutex.RUnlock"} {
		// critical sections are verified as if sequential (trusted base, DESIGN §4.6)
		stdModels[n] = stdModel{pure: true, f: noop, norecv: true}
	}
	stdModels["math.Float64bits"] = stdModel{pure: true, f: func(v *FnV, st *State, call *ast.CallExpr, recv *Value, args []Value) []Value {
		// the bit pattern b of f satisfies to_fp(b) = f (NaN payloads are left open: sound over-approximation)
		b := v.c.freshName("f64bits")
		st.declare(b, "(_ BitVec 64)")
		st.assume(sEq(sx("(_ to_fp 11 53)", b), args[0].S))
		// a function of f for non-NaN values
		v.c.glob("f64bitsfn", "(declare-fun f64bits (F64) (_ BitVec 64))")
		st.assume(sImp(sNot(sx("fp.isNaN", args[0].S)), sEq(b, sx("f64bits", args[0].S))))
		t := types.Typ[types.Uint64]
		if v.c.bv {
			return []Value{{T: t, S: b}}
		}
		return []Value{{T: t, S: sx("bv2nat", b)}}
	}}
	stdModels["math.IsNaN"] = stdModel{pure: true, f: func(v *FnV, st *State, call *ast.CallExpr, recv *Value, args []Value) []Value {
		return []Value{{T: tBool, S: sx("fp.isNaN", args[0].S)}}
	}}
	stdModels["math.IsInf"] = stdModel{pure: true, f: func(v *FnV, st *State, call *ast.CallExpr, recv *Value, args []Value) []Value {
		f := args[0].S
		zero := Value{T: args[1].T, S: v.c.intLit(args[1].T, 0)}
		inf := sx("fp.isInfinite", f)
		return []Value{{T: tBool, S: sAnd(inf, sOr(sAnd(v.c.cmp(token.GEQ, args[1], zero), sx("fp.isPositive", f)), sAnd(v.c.cmp(token.LEQ, args[1], zero), sx("fp.isNegative", f))))}}
	}}
	stdModels["math.Inf"] = stdModel{pure: true, f: func(v *FnV, st *State, call *ast.CallExpr, recv *Value, args []Value) []Value {
		zero := Value{T: args[0].T, S: v.c.intLit(args[0].T, 0)}
		return []Value{{T: tFloat64, S: sIte(v.c.cmp(token.GEQ, args[0], zero), "(_ +oo 11 53)", "(_ -oo 11 53)")}}
	}}
	stdModels["math.NaN"] = stdModel{pure: true, f: func(v *FnV, st *State, call *ast.CallExpr, recv *Value, args []Value) []Value {
		return []Value{{T: tFloat64, S: "(_ NaN 11 53)"}}
	}}
	stdModels["math.Abs"] = stdModel{pure: true, f: func(v *FnV, st *State, call *ast.CallExpr, recv *Value, args []Value) []Value {
		return []Value{{T: tFloat64, S: sx("fp.abs", args[0].S)}}
	}}
	for name, rm := range map[string]string{"math.Floor": "RTN", "math.Ceil": "RTP", "math.Trunc": "RTZ", "math.RoundToEven": "RNE", "math.Round": "RNA"} {
		rm := rm
		stdModels[name] = stdModel{pure: true, f: func(v *FnV, st *State, call *ast.CallExpr, recv *Value, args []Value) []Value {
			return []Value{{T: tFloat64, S: sx("fp.roundToIntegral", rm, args[0].S)}}
		}}
	}
	// reflect.ValueOf(x) remembers x; Comparable/IsValid are decided on the dynamic type class
	stdModels["reflect.ValueOf"] = stdModel{pure: true, f: func(v *FnV, st *State, call *ast.CallExpr, recv *Value, args []Value) []Value {
		rt := v.resultTypes(call)[0]
		rv := st.freshVal("reflectvalue", rt)
		srt := v.c.sortOf(rt)
		v.c.glob("rvorig", fmt.Sprintf("(declare-fun rvorig (%s) Val)", srt))
		st.assume(sEq(sx("rvorig", rv.S), args[0].S))
		return []Value{rv}
	}}
	// reflect.Type values are pointers to runtime type descriptors: comparable
	typeModel := stdModel{pure: true, f: func(v *FnV, st *State, call *ast.CallExpr, recv *Value, args []Value) []Value {
		rt := v.resultTypes(call)[0]
		id := st.freshVal("rtype", tInt)
		st.assume(sLt("0", id.S))
		return []Value{{T: rt, S: fmt.Sprintf("(mkval %d %s fpzero emptystr false)", v.c.tagOf(sentinelType), id.S)}}
	}}
	stdModels["reflect.Value.Type"] = typeModel
	stdModels["reflect.TypeOf"] = typeModel
	stdModels["reflect.Value.IsValid"] = stdModel{pure: true, f: func(v *FnV, st *State, call *ast.CallExpr, recv *Value, args []Value) []Value {
		v.c.glob("rvorig", fmt.Sprintf("(declare-fun rvorig (%s) Val)", v.c.sortOf(recv.T)))
		return []Value{{T: tBool, S: sNot(sEq(sx("vtag", sx("rvorig", recv.S)), "0"))}}
	}}
	stdModels["reflect.Value.Comparable"] = stdModel{pure: true, f: func(v *FnV, st *State, call *ast.CallExpr, recv *Value, args []Value) []Value {
		v.c.glob("rvorig", fmt.Sprintf("(declare-fun rvorig (%s) Val)", v.c.sortOf(recv.T)))
		v.c.trusted["reflect.Value.Comparable modelled on the dynamic type class (slice/map/func and structs containing them are uncomparable)"] = true
		return []Value{{T: tBool, S: sNot(sEq(sx("tagclass", sx("vtag", sx("rvorig", recv.S))), fmt.Sprint(clsUncmp)))}}
	}}
	// io: Read reports 0 <= n <= len(p) (io.Reader contract)
	readModel := stdModel{pure: false, f: func(v *FnV, st *State, call *ast.CallExpr, recv *Value, args []Value) []Value {
		rts := v.resultTypes(call)
		n := st.freshVal("nread", tInt)
		st.assume(sAnd(sLe("0", n.S), sLe(n.S, sx("sllen", args[0].S))))
		// the buffer contents change
		if sl, ok := args[0].T.Underlying().(*types.Slice); ok {
			name, _ := v.elemHeap(st, sl.Elem())
			st.havocHeap(name)
		}
		return []Value{n, st.freshVal("readerr", rts[1])}
	}}
	stdModels["os.File.Read"] = readModel
	stdModels["io.Reader.Read"] = readModel
	// encoding/binary big-endian 64-bit codec: byte k holds bits 8*(7-k) .. 8*(7-k)+7
	stdModels["encoding/binary.bigEndian.PutUint64"] = stdModel{pure: false, norecv: true, f: func(v *FnV, st *State, call *ast.CallExpr, recv *Value, args []Value) []Value {
		b, x := args[0], args[1]
		v.safety(st, "call:PutUint64", call, sGe(sx("sllen", b.S), "8"), "binary.BigEndian.PutUint64: the buffer holds at least 8 bytes")
		sl, _ := b.T.Underlying().(*types.Slice)
		sum := "0"
		for k := 0; k < 8; k++ {
			var byteK string
			if v.c.bv {
				byteK = fmt.Sprintf("((_ extract %d %d) %s)", 8*(7-k)+7, 8*(7-k), x.S)
			} else {
				// positional form: the eight base-256 digits of x (unique; linear for the solver)
				d := st.freshVal("digit", tByte)
				byteK = d.S
				sum = sAdd(sum, sx("*", d.S, new(big.Int).Lsh(big.NewInt(1), uint(8*(7-k))).String()))
			}
			v.sliceStore(st, sl.Elem(), b.S, fmt.Sprint(k), byteK)
		}
		if !v.c.bv {
			st.assume(sEq(x.S, sum))
		}
		return nil
	}}
	stdModels["encoding/binary.bigEndian.Uint64"] = stdModel{pure: true, norecv: true, f: func(v *FnV, st *State, call *ast.CallExpr, recv *Value, args []Value) []Value {
		b := args[0]
		v.safety(st, "call:Uint64", call, sGe(sx("sllen", b.S), "8"), "binary.BigEndian.Uint64: the buffer holds at least 8 bytes")
		sl, _ := b.T.Underlying().(*types.Slice)
		t := types.Typ[types.Uint64]
		if v.c.bv {
			parts := make([]string, 8)
			for k := 0; k < 8; k++ {
				parts[k] = v.sliceLoad(st, sl.Elem(), b.S, fmt.Sprint(k))
			}
			return []Value{{T: t, S: sx("concat", parts...)}}
		}
		sum := "0"
		for k := 0; k < 8; k++ {
			sum = sAdd(sum, sx("*", v.sliceLoad(st, sl.Elem(), b.S, fmt.Sprint(k)), new(big.Int).Lsh(big.NewInt(1), uint(8*(7-k))).String()))
		}
		return []Value{{T: t, S: sum}}
	}}
	stdModels["sort.Search"] = stdModel{pure: true, f: func(v *FnV, st *State, call *ast.CallExpr, recv *Value, args []Value) []Value {
		// the predicate closure is not executed; only the documented range of the result is used
		r := st.freshVal("search", tInt)
		st.assume(sAnd(sLe("0", r.S), sLe(r.S, sIte(sLt(args[0].S, "0"), "0", args[0].S))))
		return []Value{r}
	}}
	stdModels["strings.Repeat"] = stdModel{pure: true, f: func(v *FnV, st *State, call *ast.CallExpr, recv *Value, args []Value) []Value {
		s, n := args[0].S, args[1].S
		v.safety(st, "call:Repeat", call, sGe(n, "0"), "strings.Repeat: count must be non-negative")
		if !v.c.bv {
			v.safety(st, "call:Repeat", call, sLe(sx("*", sx("slen", s), n), "9223372036854775807"), "strings.Repeat: result length must not overflow int")
			v.oblige(st, "alloc:Repeat", call, v.fr().ord[call], sLe(sx("*", sx("slen", s), n), "281474976710656"), "strings.Repeat: result length is allocatable (<= 2^48; larger sizes panic in makeslice)")
		}
		rb := v.c.freshName("repb")
		st.declare(rb, "(Array Int Int)")
		ln := st.define("replen", "Int", sx("*", sx("slen", s), n))
		if lit, ok := v.litContent(s); ok && len(lit) == 1 {
			st.axiom(fmt.Sprintf("(forall ((k!c Int)) (! (=> (and (<= 0 k!c) (< k!c %s)) (= (select %s k!c) %d)) :pattern ((select %s k!c))))", ln, rb, int(lit[0]), rb))
		}
		return []Value{{T: tString, S: fmt.Sprintf("(mkstr %s 0 %s)", rb, ln)}}
	}}
}

var stdModels = map[string]stdModel{}

func init() {
	reg := func(name string, pure bool, f func(v *FnV, st *State, call *ast.CallExpr, recv *Value, args []Value) []Value) {
		stdModels[name] = stdModel{pure: pure, f: f}
	}
	reg("strconv.Itoa", true, func(v *FnV, st *State, call *ast.CallExpr, recv *Value, args []Value) []Value {
		v.c.glob("itoa", "(declare-fun itoa (Int) Str)",
			"(assert (forall ((i Int)) (! (and (>= (slen (itoa i)) 1) (<= (slen (itoa i)) 20) (= (soff (itoa i)) 0)) :pattern ((itoa i)))))")
		return []Value{{T: tString, S: sx("itoa", args[0].S)}}
	})
	reg("strconv.Atoi", true, func(v *FnV, st *State, call *ast.CallExpr, recv *Value, args []Value) []Value {
		v.c.atoiFns()
		s := args[0].S
		rts := v.resultTypes(call)
		val := st.freshVal("atoi", tInt)
		errv := st.freshVal("atoierr", rts[1])
		ne := v.e.lookupType("strconv", "NumError")
		st.assume(sEq(sEq(sx("vtag", errv.S), "0"), sx("atoi_ok", s)))
		st.assume(sImp(sx("atoi_ok", s), sEq(val.S, sx("atoi_val", s))))
		if ne != nil {
			pt := types.NewPointer(ne)
			ref := v.alloc(st, "numerr")
			st.assume(sImp(sNot(sx("atoi_ok", s)), sAnd(sEq(sx("vtag", errv.S), fmt.Sprint(v.c.tagOf(pt))), sEq(sx("vint", errv.S), ref))))
			// the Err field
			errRange := v.stdGlobal(st, "strconv", "ErrRange")
			errSyntax := v.stdGlobal(st, "strconv", "ErrSyntax")
			cur := v.load(st, ne, ref)
			if path, _, ok := findField(ne, "Err"); ok {
				fld := v.c.fieldGet(ne, cur, path[0])
				st.assume(sImp(sNot(sx("atoi_ok", s)), sEq(fld, sIte(sNot(sEq(sx("atoi_range", s), "0")), errRange.S, errSyntax.S))))
			}
		}
		st.assume(sImp(sAnd(sNot(sx("atoi_ok", s)), sGt(sx("atoi_range", s), "0")), sEq(val.S, "9223372036854775807")))
		st.assume(sImp(sAnd(sNot(sx("atoi_ok", s)), sLt(sx("atoi_range", s), "0")), sEq(val.S, "(- 9223372036854775808)")))
		st.assume(sImp(sAnd(sNot(sx("atoi_ok", s)), sEq(sx("atoi_range", s), "0")), sEq(val.S, "0")))
		return []Value{val, errv}
	})
	reg("strings.Index", true, func(v *FnV, st *State, call *ast.CallExpr, recv *Value, args []Value) []Value {
		s, t := args[0].S, args[1].S
		v.c.glob("sindex", "(declare-fun sindex (Str Str) Int)")
		r := Value{T: tInt, S: sx("sindex", s, t)}
		st.assume(v.c.sindexFacts(v, s, t))
		return []Value{r}
	})
	reg("strings.IndexByte", true, func(v *FnV, st *State, call *ast.CallExpr, recv *Value, args []Value) []Value {
		s, c := args[0].S, args[1].S
		v.c.glob("sindexbyte", "(declare-fun sindexbyte (Str Int) Int)")
		r := sx("sindexbyte", s, c)
		st.assume(sAnd(sLe("(- 1)", r), sLt(r, sx("slen", s)), sImp(sGe(r, "0"), sEq(sx("sat", s, r), c))))
		st.axiom(fmt.Sprintf("(forall ((k!i Int)) (! (=> (and (<= 0 k!i) (< k!i (slen %s)) (or (< %s 0) (< k!i %s))) (not (= (select (sbase %s) (+ (soff %s) k!i)) %s))) :pattern ((select (sbase %s) (+ (soff %s) k!i)))))", s, r, r, s, s, c, s, s))
		if c == "10" {
			v.c.nlFns()
			st.assume(fmt.Sprintf("(= (nl (sbase %s) (soff %s) (+ (soff %s) (ite (< %s 0) (slen %s) %s))) 0)", s, s, s, r, s, r))
		}
		return []Value{{T: tInt, S: r}}
	})
	reg("strings.LastIndexByte", true, func(v *FnV, st *State, call *ast.CallExpr, recv *Value, args []Value) []Value {
		s, c := args[0].S, args[1].S
		v.c.glob("slastindexbyte", "(declare-fun slastindexbyte (Str Int) Int)")
		r := sx("slastindexbyte", s, c)
		st.assume(sAnd(sLe("(- 1)", r), sLt(r, sx("slen", s)), sImp(sGe(r, "0"), sEq(sx("sat", s, r), c))))
		st.axiom(fmt.Sprintf("(forall ((k!i Int)) (! (=> (and (< %s k!i) (<= 0 k!i) (< k!i (slen %s))) (not (= (select (sbase %s) (+ (soff %s) k!i)) %s))) :pattern ((select (sbase %s) (+ (soff %s) k!i)))))", r, s, s, s, c, s, s))
		if c == "10" {
			v.c.nlFns()
			st.assume(fmt.Sprintf("(= (nl (sbase %s) (+ (soff %s) %s 1) (+ (soff %s) (slen %s))) 0)", s, s, r, s, s))
		}
		return []Value{{T: tInt, S: r}}
	})
	reg("strings.IndexRune", true, func(v *FnV, st *State, call *ast.CallExpr, recv *Value, args []Value) []Value {
		// for an ASCII needle this is IndexByte; otherwise only the range of the result is known
		s, c := args[0].S, args[1].S
		if n, ok := litInt(c); ok && n.IsInt64() && n.Int64() >= 0 && n.Int64() < 128 {
			return stdModels["strings.IndexByte"].f(v, st, call, recv, args)
		}
		v.c.utf8Fns()
		r := st.freshVal("indexrune", tInt)
		st.assume(sAnd(sLe("(- 1)", r.S), sLt(r.S, sx("slen", s))))
		// documented: a valid rune is found as its encoding; utf8.RuneError finds the first
		// invalid byte (decoded size 1) or an encoded U+FFFD
		valid := sAnd(sLe("0", c), sLe(c, "1114111"), sNot(sx("surrogate", c)), sNot(sEq(c, "65533")))
		found := sGe(r.S, "0")
		st.assume(sImp(found, v.c.utf8Facts(s, r.S)))
		st.assume(sImp(sAnd(found, valid), sAnd(sEq(sx("dr", s, r.S), c), sEq(sx("dz", s, r.S), sx("rl", c)))))
		st.assume(sImp(sAnd(found, sNot(valid)), sEq(sx("dr", s, r.S), "65533")))
		return []Value{r}
	})
	reg("strings.ContainsRune", true, func(v *FnV, st *State, call *ast.CallExpr, recv *Value, args []Value) []Value {
		c := args[1].S
		if n, ok := litInt(c); ok && n.IsInt64() && n.Int64() >= 0 && n.Int64() < 128 {
			r := stdModels["strings.IndexByte"].f(v, st, call, recv, args)
			return []Value{{T: tBool, S: sGe(r[0].S, "0")}}
		}
		return []Value{st.freshVal("containsrune", tBool)}
	})
	// bytes.Buffer / strings.Builder used as a local accumulator: the writes only change the
	// buffer itself (its content is not modelled: String() is havoc)
	for _, n := range []string{"bytes.Buffer.WriteByte", "bytes.Buffer.WriteRune", "bytes.Buffer.WriteString", "bytes.Buffer.Write", "bytes.Buffer.String", "bytes.Buffer.Len",
		"strings.Builder.WriteByte", "strings.Builder.WriteRune", "strings.Builder.WriteString", "strings.Builder.String", "strings.Builder.Len"} {
		reg(n, true, func(v *FnV, st *State, call *ast.CallExpr, recv *Value, args []Value) []Value {
			v.c.trusted["bytes.Buffer / strings.Builder writes change only the buffer (content not modelled)"] = true
			return v.havocResults(st, call, "buf")
		})
	}
	// sort.Slice(x, less): the elements are permuted in place (trusted: nothing is said about
	// the resulting order - that would need less to be a strict weak order). new[k] = old[perm(k)]
	// with perm an unknown function into [0, len): any per-element fact carries over.
	reg("sort.Slice", false, func(v *FnV, st *State, call *ast.CallExpr, recv *Value, args []Value) []Value {
		slt, ok := v.typeOf(call.Args[0]).Underlying().(*types.Slice)
		if !ok || len(v.frames) == 0 {
			st.havocAllHeaps()
			return nil
		}
		sl := v.expr(st, call.Args[0])
		elem := v.substT(slt.Elem())
		name, h := v.elemHeap(st, elem)
		es := v.c.sortOf(elem)
		ref := sx("sref", sl.S)
		na := v.c.freshName("sorted")
		pf := v.c.freshName("perm")
		st.declare(na, "(Array Int "+es+")")
		st.items = append(st.items, Item{Decl: fmt.Sprintf("(declare-fun %s (Int) Int)", pf)})
		old := sSelect(h, ref)
		lo, hi := sx("sloff", sl.S), sAdd(sx("sloff", sl.S), sx("sllen", sl.S))
		st.axiom(fmt.Sprintf("(forall ((k!c Int)) (! (ite (and (<= %s k!c) (< k!c %s)) (and (<= %s (%s k!c)) (< (%s k!c) %s) (= (select %s k!c) (select %s (%s k!c)))) (= (select %s k!c) (select %s k!c))) :pattern ((select %s k!c))))",
			lo, hi, lo, pf, pf, hi, na, old, pf, na, old, na))
		v.writeCheck(st, ref, "sort.Slice sorts in place")
		st.setHeap(name, sStore(h, ref, na))
		if fact := v.sortedFact(st, call, lo, hi); fact != "" {
			st.axiom(fact)
			v.c.trusted["sort.Slice permutes the slice in place; afterwards less(b, a) is false for positions a < b (less of the form `return E(i) < E(j)`, evaluated without running the closure)"] = true
		} else {
			v.c.trusted["sort.Slice permutes the slice in place (resulting order not modelled)"] = true
		}
		return nil
	})
	// math/rand: Intn/Int63n/Int31n panic ("invalid argument") unless n > 0
	for _, n := range []string{"math/rand.Rand.Intn", "math/rand.Rand.Int63n", "math/rand.Rand.Int31n", "math/rand.Intn", "math/rand.Int63n", "math/rand.Int31n"} {
		name := n
		reg(name, true, func(v *FnV, st *State, call *ast.CallExpr, recv *Value, args []Value) []Value {
			v.safety(st, "call:Intn", call, sGt(v.mathInt(args[0]), "0"), shortName(name)+": argument must be positive")
			r := v.havocResults(st, call, "rnd")
			if len(r) == 1 {
				st.assume(sAnd(sLe("0", v.mathInt(r[0])), sLt(v.mathInt(r[0]), v.mathInt(args[0]))))
			}
			return r
		})
	}
	// string functions without heap effects whose result is left unconstrained
	for _, n := range []string{"strings.ReplaceAll", "strings.Replace", "strings.ToLower", "strings.ToUpper", "strings.TrimSpace",
		"strings.Trim", "strings.TrimLeft", "strings.TrimRight", "strings.TrimPrefix", "strings.TrimSuffix", "strings.Join", "strings.Fields", "strings.EqualFold"} {
		name := n
		if _, ok := stdModels[name]; ok {
			continue
		}
		reg(name, true, func(v *FnV, st *State, call *ast.CallExpr, recv *Value, args []Value) []Value {
			return v.havocResults(st, call, "str")
		})
	}
	// strings.SplitN / strings.Split: only the length of the result is modelled (documented:
	// n == 0 gives nil; otherwise at least one and, for n > 0, at most n substrings)
	reg("strings.SplitN", true, func(v *FnV, st *State, call *ast.CallExpr, recv *Value, args []Value) []Value {
		r := st.freshVal("splitn", v.resultTypes(call)[0])
		n := args[2].S
		l := sx("sllen", r.S)
		st.assume(sImp(sEq(n, "0"), sEq(l, "0")))
		// (an empty separator explodes s into its UTF-8 sequences: none for the empty string)
		st.assume(sImp(sAnd(sNot(sEq(n, "0")), sOr(sGt(sx("slen", args[1].S), "0"), sGt(sx("slen", args[0].S), "0"))), sGe(l, "1")))
		st.assume(sImp(sGt(n, "0"), sLe(l, n)))
		return []Value{r}
	})
	reg("strings.Split", true, func(v *FnV, st *State, call *ast.CallExpr, recv *Value, args []Value) []Value {
		r := st.freshVal("split", v.resultTypes(call)[0])
		st.assume(sImp(sOr(sGt(sx("slen", args[1].S), "0"), sGt(sx("slen", args[0].S), "0")), sGe(sx("sllen", r.S), "1")))
		return []Value{r}
	})
	reg("strings.LastIndex", true, func(v *FnV, st *State, call *ast.CallExpr, recv *Value, args []Value) []Value {
		s, t := args[0].S, args[1].S
		if lit, ok := v.litContent(t); ok && len(lit) == 1 {
			return stdModels["strings.LastIndexByte"].f(v, st, call, recv, []Value{args[0], {T: tByte, S: fmt.Sprint(int(lit[0]))}})
		}
		r := st.freshVal("lastindex", tInt)
		st.assume(sAnd(sLe("(- 1)", r.S), sLe(sAdd(r.S, sx("slen", t)), sx("+", sx("slen", s), sx("slen", t)))))
		st.assume(sImp(sGe(r.S, "0"), sLe(sAdd(r.S, sx("slen", t)), sx("slen", s))))
		return []Value{r}
	})
	// TrimRightFunc / TrimLeftFunc: the predicate closure is not executed; the result is a
	// prefix / suffix of s cut at a decode boundary (documented behaviour)
	reg("strings.TrimRightFunc", true, func(v *FnV, st *State, call *ast.CallExpr, recv *Value, args []Value) []Value {
		v.c.utf8Fns()
		s := args[0].S
		k := st.freshVal("trimr", tInt)
		st.assume(sAnd(sLe("0", k.S), sLe(k.S, sx("slen", s))))
		return []Value{{T: tString, S: fmt.Sprintf("(mkstr (sbase %s) (soff %s) %s)", s, s, k.S)}}
	})
	reg("strings.TrimLeftFunc", true, func(v *FnV, st *State, call *ast.CallExpr, recv *Value, args []Value) []Value {
		v.c.utf8Fns()
		s := args[0].S
		k := st.freshVal("triml", tInt)
		st.assume(sAnd(sLe("0", k.S), sLe(k.S, sx("slen", s))))
		return []Value{{T: tString, S: fmt.Sprintf("(mkstr (sbase %s) (+ (soff %s) %s) (- (slen %s) %s))", s, s, k.S, s, k.S)}}
	})
	reg("strings.HasSuffix", true, func(v *FnV, st *State, call *ast.CallExpr, recv *Value, args []Value) []Value {
		s, t := args[0].S, args[1].S
		if lit, ok := v.litContent(t); ok && len(lit) <= 8 {
			ps := []string{sGe(sx("slen", s), fmt.Sprint(len(lit)))}
			for i := 0; i < len(lit); i++ {
				ps = append(ps, sEq(sx("sat", s, sx("+", sx("-", sx("slen", s), fmt.Sprint(len(lit))), fmt.Sprint(i))), fmt.Sprint(int(lit[i]))))
			}
			return []Value{{T: tBool, S: sAnd(ps...)}}
		}
		return []Value{{T: tBool, S: sAnd(sGe(sx("slen", s), sx("slen", t)), sx("str_eq", fmt.Sprintf("(mkstr (sbase %s) (+ (soff %s) (- (slen %s) (slen %s))) (slen %s))", s, s, s, t, t), t))}}
	})
	reg("strings.HasPrefix", true, func(v *FnV, st *State, call *ast.CallExpr, recv *Value, args []Value) []Value {
		s, t := args[0].S, args[1].S
		if lit, ok := v.litContent(t); ok && len(lit) <= 8 {
			ps := []string{sGe(sx("slen", s), fmt.Sprint(len(lit)))}
			for i := 0; i < len(lit); i++ {
				ps = append(ps, sEq(sx("sat", s, fmt.Sprint(i)), fmt.Sprint(int(lit[i]))))
			}
			return []Value{{T: tBool, S: sAnd(ps...)}}
		}
		return []Value{{T: tBool, S: sAnd(sGe(sx("slen", s), sx("slen", t)), sx("str_eq", fmt.Sprintf("(mkstr (sbase %s) (soff %s) (slen %s))", s, s, t), t))}}
	})
	reg("strings.Count", true, func(v *FnV, st *State, call *ast.CallExpr, recv *Value, args []Value) []Value {
		s, t := args[0].S, args[1].S
		if lit, ok := v.litContent(t); ok && lit == "\n" {
			v.c.nlFns()
			return []Value{{T: tInt, S: fmt.Sprintf("(nl (sbase %s) (soff %s) (+ (soff %s) (slen %s)))", s, s, s, s)}}
		}
		r := st.freshVal("count", tInt)
		st.assume(sAnd(sLe("0", r.S), sLe(r.S, sx("+", sx("slen", s), "1"))))
		return []Value{r}
	})
	reg("strings.Contains", true, func(v *FnV, st *State, call *ast.CallExpr, recv *Value, args []Value) []Value {
		return []Value{st.freshVal("contains", tBool)}
	})
	reg("unicode/utf8.DecodeRuneInString", true, func(v *FnV, st *State, call *ast.CallExpr, recv *Value, args []Value) []Value {
		v.c.utf8Fns()
		s := args[0].S
		st.assume(v.c.utf8Facts(s, "0"))
		return []Value{{T: tRune, S: sx("dr", s, "0")}, {T: tInt, S: sx("dz", s, "0")}}
	})
	reg("unicode/utf8.DecodeLastRuneInString", true, func(v *FnV, st *State, call *ast.CallExpr, recv *Value, args []Value) []Value {
		v.c.utf8Fns()
		s := args[0].S
		n := sx("slen", s)
		st.assume(v.c.utf8LastFacts(s, n))
		return []Value{{T: tRune, S: sx("lr", s, n)}, {T: tInt, S: sx("lz", s, n)}}
	})
	reg("unicode/utf8.RuneLen", true, func(v *FnV, st *State, call *ast.CallExpr, recv *Value, args []Value) []Value {
		v.c.utf8Fns()
		r := args[0].S
		return []Value{{T: tInt, S: sIte(sOr(sLt(r, "0"), sGt(r, "1114111"), sAnd(sLe("55296", r), sLe(r, "57343"))), "(- 1)", sx("rl", r))}}
	})
	reg("unicode/utf8.RuneCountInString", true, func(v *FnV, st *State, call *ast.CallExpr, recv *Value, args []Value) []Value {
		r := st.freshVal("runecount", tInt)
		st.assume(sAnd(sLe("0", r.S), sLe(r.S, sx("slen", args[0].S))))
		st.assume(sImp(sGt(sx("slen", args[0].S), "0"), sGt(r.S, "0")))
		return []Value{r}
	})
	reg(".error.Error", true, func(v *FnV, st *State, call *ast.CallExpr, recv *Value, args []Value) []Value {
		// Error() of an arbitrary error value: some string; treated as free of side effects
		return []Value{st.freshVal("errmsg", tString)}
	})
	reg("errors.New", true, func(v *FnV, st *State, call *ast.CallExpr, recv *Value, args []Value) []Value {
		return []Value{v.freshError(st)}
	})
	reg("fmt.Errorf", true, func(v *FnV, st *State, call *ast.CallExpr, recv *Value, args []Value) []Value {
		return []Value{v.freshError(st)}
	})
	reg("fmt.Sprintf", true, func(v *FnV, st *State, call *ast.CallExpr, recv *Value, args []Value) []Value {
		return []Value{st.freshVal("sprintf", tString)}
	})
	reg("fmt.Sprint", true, func(v *FnV, st *State, call *ast.CallExpr, recv *Value, args []Value) []Value {
		return []Value{st.freshVal("sprint", tString)}
	})
}

// sindexFacts: sindex(s,t) is the first occurrence of t in s, or -1.
func (c *Ctx) sindexFacts(v *FnV, s, t string) string {
	r := sx("sindex", s, t)
	n, m := sx("slen", s), sx("slen", t)
	facts := []string{sLe("(- 1)", r), sImp(sGe(r, "0"), sLe(sAdd(r, m), n))}
	if lit, ok := v.litContent(t); ok && len(lit) <= 8 {
		match := func(k string) string {
			var ps []string
			for i := 0; i < len(lit); i++ {
				ps = append(ps, sEq(sx("sat", s, sAdd(k, fmt.Sprint(i))), fmt.Sprint(int(lit[i]))))
			}
			return sAnd(ps...)
		}
		facts = append(facts, sImp(sGe(r, "0"), match(r)))
		facts = append(facts, fmt.Sprintf("(forall ((k!i Int)) (! (=> (and (<= 0 k!i) (<= (+ k!i %d) %s) (or (< %s 0) (< k!i %s))) (not %s)) :pattern ((sat %s k!i))))",
			len(lit), n, r, r, match("k!i"), s))
	}
	return sAnd(facts...)
}

// sOr1 is max(n,1) so that "-1 <= r < max(n,1)" admits r = -1 for the empty string.
func sOr1(n string) string { return sIte(sLt(n, "1"), "1", n) }

func sOr2Max(n, m, r string) string {
	// upper bound used for the r == -1 case: r + m <= max(n, m) is always true then; keep simple
	return sx("+", n, m)
}

func (v *FnV) freshError(st *State) Value {
	et := types.Universe.Lookup("error").Type()
	ref := v.alloc(st, "err")
	return Value{T: et, S: fmt.Sprintf("(mkval %d %s fpzero emptystr false)", v.c.tagOf(sentinelType), ref)}
}

func (e *Engine) lookupType(pkgPath, name string) types.Type {
	for _, p := range e.allPkgs {
		if p.PkgPath == pkgPath && p.Types != nil {
			if o := p.Types.Scope().Lookup(name); o != nil {
				return o.Type()
			}
		}
	}
	return nil
}

func (v *FnV) stdGlobal(st *State, pkgPath, name string) Value {
	for _, p := range v.e.allPkgs {
		if p.PkgPath == pkgPath && p.Types != nil {
			if o, ok := p.Types.Scope().Lookup(name).(*types.Var); ok {
				return v.global(st, o)
			}
		}
	}
	return st.freshVal(name, types.Universe.Lookup("error").Type())
}

// strLtFns: Go's < on strings is bytewise lexicographic order. Only its order
// properties are axiomatised (STRLTAX, trusted): a strict total order on contents.
func (c *Ctx) strLtFns() {
	c.glob("strlt", "(declare-fun str_lt (Str Str) Bool)",
		"(assert (forall ((a Str) (b Str)) (! (not (and (str_lt a b) (str_lt b a))) :pattern ((str_lt a b)))))",
		"(assert (forall ((a Str) (b Str) (c Str)) (! (=> (and (str_lt a b) (str_lt b c)) (str_lt a c)) :pattern ((str_lt a b) (str_lt b c)))))",
		"(assert (forall ((a Str) (b Str)) (! (=> (str_eq a b) (and (not (str_lt a b)) (not (str_lt b a)))) :pattern ((str_lt a b)))))",
		"(assert (forall ((a Str) (b Str)) (! (=> (and (not (str_lt a b)) (not (str_lt b a))) (str_eq a b)) :pattern ((str_lt a b)))))",
		// negative transitivity (a consequence of being a strict TOTAL order on contents)
		"(assert (forall ((a Str) (b Str) (c Str)) (! (=> (str_lt a c) (or (str_lt a b) (str_lt b c))) :pattern ((str_lt a c) (str_lt a b)) :pattern ((str_lt a c) (str_lt b c)))))",
	)
	c.trusted["STRLTAX: Go's < on strings is a strict total order on string contents (order axioms only)"] = true
}

func (c *Ctx) atoiFns() {
	c.glob("atoi", "(declare-fun atoi_ok (Str) Bool)", "(declare-fun atoi_val (Str) Int)", "(declare-fun atoi_range (Str) Int)",
		"(assert (forall ((s Str)) (! (and (<= (- 9223372036854775808) (atoi_val s)) (<= (atoi_val s) 9223372036854775807)) :pattern ((atoi_val s)))))",
		"(assert (forall ((s Str)) (! (=> (= (slen s) 0) (and (not (atoi_ok s)) (= (atoi_range s) 0))) :pattern ((atoi_ok s)))))")
}

// ---------- UTF-8 (UTF8AX of DESIGN Appendix B; facts are instantiated at each use) ----------

func (c *Ctx) utf8Fns() {
	c.glob("utf8",
		"(declare-fun dr3 ((Array Int Int) Int Int) Int)",
		"(declare-fun dz3 ((Array Int Int) Int Int) Int)",
		"(declare-fun lr3 ((Array Int Int) Int Int) Int)",
		"(declare-fun lz3 ((Array Int Int) Int Int) Int)",
		"(declare-fun bd3 ((Array Int Int) Int Int Int) Bool)",
		"(define-fun surrogate ((r Int)) Bool (and (<= 55296 r) (<= r 57343)))",
		"(define-fun rl ((r Int)) Int (ite (< r 0) 3 (ite (< r 128) 1 (ite (< r 2048) 2 (ite (surrogate r) 3 (ite (< r 65536) 3 (ite (<= r 1114111) 4 3)))))))",
		"(define-fun dr ((s Str) (i Int)) Int (dr3 (sbase s) (+ (soff s) i) (+ (soff s) (slen s))))",
		"(define-fun dz ((s Str) (i Int)) Int (dz3 (sbase s) (+ (soff s) i) (+ (soff s) (slen s))))",
		"(define-fun lr ((s Str) (i Int)) Int (lr3 (sbase s) (soff s) (+ (soff s) i)))",
		"(define-fun lz ((s Str) (i Int)) Int (lz3 (sbase s) (soff s) (+ (soff s) i)))",
		"(define-fun bd ((s Str) (i Int)) Bool (bd3 (sbase s) (soff s) (+ (soff s) i) (+ (soff s) (slen s))))",
		"(declare-fun runestr (Int) Str)",
		"(assert (forall ((r Int)) (! (and (= (slen (runestr r)) (rl r)) (= (soff (runestr r)) 0)) :pattern ((runestr r)))))",
		// string(r) decodes back to one rune spanning the whole string (U+FFFD for invalid r); ASCII is the byte itself
		"(assert (forall ((r Int)) (! (and (= (dz3 (sbase (runestr r)) 0 (rl r)) (rl r)) (= (dr3 (sbase (runestr r)) 0 (rl r)) (ite (or (< r 0) (> r 1114111) (surrogate r)) 65533 r)) (=> (and (<= 0 r) (< r 128)) (= (select (sbase (runestr r)) 0) r))) :pattern ((runestr r)))))",
		// F1..F6 as a predicate instantiated at use sites
		`(define-fun utf8ok ((b (Array Int Int)) (p Int) (hi Int)) Bool
  (let ((r (dr3 b p hi)) (z (dz3 b p hi)) (c (select b p)))
   (and (=> (>= p hi) (and (= z 0) (= r 65533)))
        (=> (< p hi) (and (<= 1 z) (<= z 4) (<= (+ p z) hi)))
        (=> (and (< p hi) (<= 0 c) (< c 128)) (and (= r c) (= z 1)))
        (=> (and (< p hi) (>= c 128)) (and (<= 128 r) (<= r 1114111) (not (surrogate r))))
        (=> (and (= z 1) (>= c 128)) (= r 65533))
        (=> (>= z 2) (= z (rl r)))
        (=> (= z 2) (and (<= 194 c) (<= c 223) (<= 128 (select b (+ p 1))) (<= (select b (+ p 1)) 191)
                         (= r (+ (* (- c 192) 64) (- (select b (+ p 1)) 128)))))
        (=> (= z 3) (and (<= 224 c) (<= c 239) (<= 128 (select b (+ p 1))) (<= (select b (+ p 1)) 191) (<= 128 (select b (+ p 2))) (<= (select b (+ p 2)) 191)
                         (= r (+ (* (- c 224) 4096) (* (- (select b (+ p 1)) 128) 64) (- (select b (+ p 2)) 128)))))
        (=> (= z 4) (and (<= 240 c) (<= c 244) (<= 128 (select b (+ p 1))) (<= (select b (+ p 1)) 191) (<= 128 (select b (+ p 2))) (<= (select b (+ p 2)) 191)
                         (<= 128 (select b (+ p 3))) (<= (select b (+ p 3)) 191)
                         (= r (+ (* (- c 240) 262144) (* (- (select b (+ p 1)) 128) 4096) (* (- (select b (+ p 2)) 128) 64) (- (select b (+ p 3)) 128)))))
        (<= 0 c) (<= c 255))))`,
		`(define-fun utf8lastok ((b (Array Int Int)) (lo Int) (p Int)) Bool
  (let ((r (lr3 b lo p)) (z (lz3 b lo p)) (c (select b (- p 1))))
   (and (=> (<= p lo) (and (= z 0) (= r 65533)))
        (=> (> p lo) (and (<= 1 z) (<= z 4) (<= lo (- p z))))
        (=> (and (> p lo) (<= 0 c) (< c 128)) (and (= r c) (= z 1)))
        (=> (and (> p lo) (>= c 128)) (and (<= 128 r) (<= r 1114111) (not (surrogate r))))
        (=> (>= z 2) (= z (rl r)))
        (=> (= z 2) (and (<= 194 (select b (- p 2))) (<= (select b (- p 2)) 223) (<= 128 c) (<= c 191)
                         (= r (+ (* (- (select b (- p 2)) 192) 64) (- c 128)))))
        (=> (= z 3) (and (<= 224 (select b (- p 3))) (<= (select b (- p 3)) 239) (<= 128 (select b (- p 2))) (<= (select b (- p 2)) 191) (<= 128 c) (<= c 191)
                         (= r (+ (* (- (select b (- p 3)) 224) 4096) (* (- (select b (- p 2)) 128) 64) (- c 128)))))
        (=> (= z 4) (and (<= 240 (select b (- p 4))) (<= (select b (- p 4)) 244) (<= 128 (select b (- p 3))) (<= (select b (- p 3)) 191)
                         (<= 128 (select b (- p 2))) (<= (select b (- p 2)) 191) (<= 128 c) (<= c 191)
                         (= r (+ (* (- (select b (- p 4)) 240) 262144) (* (- (select b (- p 3)) 128) 4096) (* (- (select b (- p 2)) 128) 64) (- c 128))))))))`,
	)
}

func (c *Ctx) utf8Facts(s, i string) string {
	return fmt.Sprintf("(utf8ok (sbase %s) (+ (soff %s) %s) (+ (soff %s) (slen %s)))", s, s, i, s, s)
}

func (c *Ctx) utf8LastFacts(s, i string) string {
	return fmt.Sprintf("(utf8lastok (sbase %s) (soff %s) (+ (soff %s) %s))", s, s, s, i)
}

func (c *Ctx) nlFns() {
	c.glob("nl",
		"(declare-fun nl ((Array Int Int) Int Int) Int)",
		"(assert (forall ((b (Array Int Int)) (a Int) (c Int)) (! (>= (nl b a c) 0) :pattern ((nl b a c)))))",
		"(assert (forall ((b (Array Int Int)) (a Int)) (! (= (nl b a a) 0) :pattern ((nl b a a)))))",
		// NLAX (trusted axioms about counting newlines; listed in the evidence)
		"(assert (forall ((b (Array Int Int)) (a Int) (c Int)) (! (<= (nl b a c) (ite (>= c a) (- c a) 0)) :pattern ((nl b a c)))))",
		"(assert (forall ((b (Array Int Int)) (a Int) (c Int)) (! (=> (= c (+ a 1)) (= (nl b a c) (ite (= (select b a) 10) 1 0))) :pattern ((nl b a c)))))",
		"(assert (forall ((b (Array Int Int)) (a Int) (m Int) (c Int)) (! (=> (and (<= a m) (<= m c)) (= (nl b a c) (+ (nl b a m) (nl b m c)))) :pattern ((nl b a m) (nl b m c)) :pattern ((nl b a c) (nl b a m)) :pattern ((nl b a c) (nl b m c)))))",
		"(assert (forall ((b (Array Int Int)) (a Int) (c Int) (k Int)) (! (=> (and (= (nl b a c) 0) (<= a k) (< k c)) (not (= (select b k) 10))) :pattern ((nl b a c) (select b k)))))")
	c.trusted["NLAX: axioms of nl(b,a,c) = number of '\\n' bytes in b[a:c) (bounds, unit, additivity, zero-count)"] = true
}

// sortedFact: for sort.Slice(x, func(i, j int) bool { return A < B }) the order after the
// call: for positions a < b of the slice, less(b, a) does not hold. The comparison is
// evaluated symbolically in the state after the permutation, with i := b and j := a.
func (v *FnV) sortedFact(st *State, call *ast.CallExpr, lo, hi string) string {
	lit, ok := call.Args[1].(*ast.FuncLit)
	if !ok || len(lit.Body.List) != 1 || lit.Type.Params == nil {
		return ""
	}
	ret, ok := lit.Body.List[0].(*ast.ReturnStmt)
	if !ok || len(ret.Results) != 1 {
		return ""
	}
	var ps []types.Object
	for _, f := range lit.Type.Params.List {
		for _, id := range f.Names {
			if o := v.info().Defs[id]; o != nil {
				ps = append(ps, o)
			}
		}
	}
	if len(ps) != 2 {
		return ""
	}
	pure := true
	ast.Inspect(ret.Results[0], func(n ast.Node) bool {
		if _, ok := n.(*ast.CallExpr); ok {
			pure = false
		}
		return true
	})
	if !pure {
		return ""
	}
	q := st.fork()
	q.quiet = true
	nq := len(q.items)
	sloff := lo
	// positions are absolute (array index); i and j are relative to the slice
	q.env[ps[0].(*types.Var)] = Value{T: tInt, S: "(- k!sb " + sloff + ")"}
	q.env[ps[1].(*types.Var)] = Value{T: tInt, S: "(- k!sa " + sloff + ")"}
	var less Value
	func() {
		defer func() {
			if r := recover(); r != nil {
				less = Value{}
			}
		}()
		less = v.expr(q, ret.Results[0])
	}()
	if less.S == "" || !isBoolType(less.T) {
		return ""
	}
	for _, it := range q.items[nq:] {
		if it.Decl != "" {
			st.items = append(st.items, it)
		}
	}
	return fmt.Sprintf("(forall ((k!sa Int) (k!sb Int)) (=> (and (<= %s k!sa) (< k!sa k!sb) (< k!sb %s)) (not %s)))", lo, hi, less.S)
}
