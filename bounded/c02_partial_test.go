package parse

// Bounded-exhaustive harness for property C02: "errors in prefixes of valid
// programs are partial".
//
// diag.Error.Partial is documented as "true iff there exists a string x such
// that appending it to the input eliminates the error". The parser computes it
// (parser.errorp) as "the error's range starts at the end of the input". So
// whenever a string v parses WITHOUT error, every proper prefix p of v (cut at
// a rune boundary) is an input for which such an x exists for all of its
// errors, and therefore every error reported for p must have Partial == true,
// which in turn must coincide with Range().From == len(p).
//
// The harness enumerates ALL strings of at most L symbols over the alphabet
// below as a trie (depth-first, so each string is parsed exactly once and the
// parse results of all its prefixes are on the DFS stack). For every string it
// checks Partial <=> (From == len(input)) and From <= To <= len(input) for each
// error; for every string that parses without error it checks each proper
// prefix (including the empty one): all errors of the prefix are Partial and
// start at len(prefix).
//
// Bounds (symbols; the 2-byte rune is one symbol, so prefixes are always cut
// at rune boundaries):
//
//	quick    (default)             : 25 symbols, length 0..5          ->  10,172,526 strings, ~15 s
//	thorough (VERIF_TIER=thorough) : 25 symbols, length 0..5, plus the
//	                                 21-symbol alphabet at length
//	                                 exactly 6, plus the 12-symbol core
//	                                 alphabet at length exactly 7 (in
//	                                 the extra passes the shorter
//	                                 strings are parsed again, to have
//	                                 the prefixes' errors, but are not
//	                                 counted again)                    -> 131,770,455 strings, ~3.5 min
//
// (one core; about 1.4 us per string).
//
// "cases" in the BOUNDED line is the number of distinct strings parsed and
// examined; the numbers of valid programs and of (valid program, prefix) pairs
// are logged.

import (
	"fmt"
	"os"
	"testing"
)

var verifC02Alphabet = []string{
	"a", " ", "\n", ";", "|", "(", ")", "[", "]", "{", "}", "'", "\"", "$", "&", "=",
	"\\", "<", ">", ",", "^", "?", "~", "#",
	"é", // 2-byte rune
}

// verifC02Alphabet without backslash, '~', '#' and the 2-byte rune.
var verifC02Mid = []string{
	"a", " ", "\n", ";", "|", "(", ")", "[", "]", "{", "}", "'", "\"", "$", "&", "=",
	"<", ">", ",", "^", "?",
}

var verifC02Core = []string{
	"a", " ", "\n", "|", "(", ")", "[", "]", "{", "}", "'", "$",
}

type verifC02Run struct {
	t       *testing.T
	alpha   []string
	maxLen  int
	countAt int // only strings of at least this many symbols are counted/checked as valid programs

	buf  []byte
	lens []int      // lens[d] = byte length of the prefix with d symbols
	errs [][]*Error // errs[d] = parse errors of the prefix with d symbols

	cases, valid, pairs, prefixesWithErr int
}

func (r *verifC02Run) rec(depth int) {
	s := string(r.buf)
	_, err := Parse(Source{Name: "t", Code: s}, Config{})
	errs := UnpackErrors(err)
	if err != nil && len(errs) == 0 {
		r.t.Fatalf("C02: input %q: error is not a list of parse errors: %T %v", s, err, err)
	}
	r.lens[depth] = len(s)
	r.errs[depth] = errs

	if depth >= r.countAt {
		r.cases++
		// Partial <=> the error's range starts at the end of the input.
		for i, e := range errs {
			er := e.Range()
			if !(0 <= er.From && er.From <= er.To && er.To <= len(s)) {
				r.t.Fatalf("C02: input %q: error %d (%s) has range [%d,%d) outside [0,%d]",
					s, i, e.Message, er.From, er.To, len(s))
			}
			if e.Partial != (er.From == len(s)) {
				r.t.Fatalf("C02: input %q: error %d (%s) at [%d,%d) has Partial=%v, want Partial <=> From == %d",
					s, i, e.Message, er.From, er.To, e.Partial, len(s))
			}
		}
		if len(errs) == 0 {
			// A valid program: all errors of all proper prefixes must be partial.
			r.valid++
			for d := 0; d < depth; d++ {
				r.pairs++
				if len(r.errs[d]) > 0 {
					r.prefixesWithErr++
				}
				for i, e := range r.errs[d] {
					if !e.Partial || e.Range().From != r.lens[d] {
						r.t.Fatalf("C02 violated: %q parses without error, but its prefix %q has error %d %q at [%d,%d) with Partial=%v (want Partial=true and From=%d)",
							s, s[:r.lens[d]], i, e.Message, e.Range().From, e.Range().To, e.Partial, r.lens[d])
					}
				}
			}
		}
	}

	if depth == r.maxLen {
		return
	}
	n := len(r.buf)
	for _, sym := range r.alpha {
		r.buf = append(r.buf[:n], sym...)
		r.rec(depth + 1)
	}
	r.buf = r.buf[:n]
}

func TestVerifBoundedC02(t *testing.T) {
	type pass struct {
		alpha           []string
		countAt, maxLen int
	}
	passes := []pass{{verifC02Alphabet, 0, 5}}
	if os.Getenv("VERIF_TIER") == "thorough" {
		passes = []pass{{verifC02Alphabet, 0, 5}, {verifC02Mid, 6, 6}, {verifC02Core, 7, 7}}
	}
	cases := 0
	for _, p := range passes {
		r := &verifC02Run{t: t, alpha: p.alpha, maxLen: p.maxLen, countAt: p.countAt,
			lens: make([]int, p.maxLen+1), errs: make([][]*Error, p.maxLen+1)}
		r.rec(0)
		t.Logf("alphabet=%d symbols, lengths %d..%d: strings=%d valid programs=%d (program,prefix) pairs=%d of which prefix has errors=%d",
			len(p.alpha), p.countAt, p.maxLen, r.cases, r.valid, r.pairs, r.prefixesWithErr)
		cases += r.cases
	}
	fmt.Printf("BOUNDED name=c02_partial cases=%d\n", cases)
}
