package parse

// Bounded-exhaustive harness for property C03: "quoted strings evaluate back
// to the exact original".
//
// For EVERY byte string s made of at most L symbols of the alphabet below:
//
//   - q := Quote(s): "echo "+q parses without error into one pipeline with one
//     form `echo <arg>`; the single argument is a Compound made of exactly one
//     Indexing without indices whose head Primary is a string literal
//     (Bareword, SingleQuoted or DoubleQuoted) with Value == s;
//   - QuoteAs(s, t) for t in {Bareword, SingleQuoted, DoubleQuoted}: same, and
//     the Primary's Type is the "actual quoting" QuoteAs returned (Quote is
//     QuoteAs(s, Bareword));
//   - QuoteVariableName(s): "echo $"+q parses without error and the single
//     argument is one Primary of Type Variable with Value == s;
//   - QuoteCommandName(s): q+" x" parses without error into one form whose head
//     is a single string-literal Primary with Value == s, followed by the one
//     argument x.
//
// Bounds (symbols; the multi-byte runes are one symbol each, the stray bytes
// 0x80, 0xC3, 0xFF are symbols of their own, so both ill-formed sequences and
// the well-formed "\xc3\x80" built from two symbols occur):
//
//	quick    (default)             : all 40 symbols, length 0..3    ->    65,641 strings, ~1 s
//	thorough (VERIF_TIER=thorough) : all 40 symbols, length 0..4,
//	                                 plus the 20-symbol core alphabet
//	                                 at length exactly 5            -> 5,825,641 strings, ~45 s
//
// Each string costs 6 Parse calls (one core; about 8 us per string).

import (
	"fmt"
	"os"
	"testing"
)

var verifC03Alphabet = []string{
	"a", "~", " ", "\n", "\t", "\r", "'", "\"", "\\", "$", "#", "*", "?",
	"[", "]", "{", "}", "(", ")", "<", ">", ";", "|", "&", "=", "^", ":", ",", "@",
	"\x00", "\x7f",
	"\x80", "\xc3", "\xff", // ill-formed on their own; "\xc3\x80" is U+00C0
	"\u00e9",     // 2 bytes, printable
	"\u00a0",     // 2 bytes, not printable (\u escape)
	"\u20ac",     // 3 bytes, printable
	"\ufffd",     // 3 bytes, the replacement character itself
	"\U0001F600", // 4 bytes, printable
	"\U0010FFFF", // 4 bytes, not printable (\U escape)
}

var verifC03Core = []string{
	"a", "~", " ", "\n", "'", "\"", "\\", "$", "*", "{", "<", "&", "=", "^", ",", "@",
	"\x00", "\x80", "\xc3", "é",
}

func verifC03IsStringLiteral(t PrimaryType) bool {
	return t == Bareword || t == SingleQuoted || t == DoubleQuoted
}

// verifC03SinglePrimary returns the only Primary of a compound that consists of
// exactly one Indexing without indices, or an error description.
func verifC03SinglePrimary(cn *Compound) (*Primary, string) {
	if cn == nil {
		return nil, "compound is nil"
	}
	if len(cn.Indexings) != 1 {
		return nil, fmt.Sprintf("compound has %d indexings, want 1", len(cn.Indexings))
	}
	in := cn.Indexings[0]
	if len(in.Indices) != 0 {
		return nil, fmt.Sprintf("indexing has %d indices, want 0", len(in.Indices))
	}
	if in.Head == nil {
		return nil, "indexing has no head"
	}
	return in.Head, ""
}

// verifC03OnlyForm parses code and returns its only form, or an error
// description.
func verifC03OnlyForm(code string) (*Form, string) {
	tree, err := Parse(Source{Name: "t", Code: code}, Config{})
	if err != nil {
		return nil, fmt.Sprintf("parse error: %v", err)
	}
	if len(tree.Root.Pipelines) != 1 {
		return nil, fmt.Sprintf("%d pipelines, want 1", len(tree.Root.Pipelines))
	}
	pn := tree.Root.Pipelines[0]
	if len(pn.Forms) != 1 || pn.Background {
		return nil, fmt.Sprintf("%d forms (background=%v), want 1 foreground form", len(pn.Forms), pn.Background)
	}
	fn := pn.Forms[0]
	if len(fn.Opts) != 0 || len(fn.Redirs) != 0 {
		return nil, fmt.Sprintf("form has %d options and %d redirections, want none", len(fn.Opts), len(fn.Redirs))
	}
	return fn, ""
}

// verifC03EchoArg parses "echo "+rest and returns the Primary of its single
// argument.
func verifC03EchoArg(rest string) (*Primary, string) {
	fn, msg := verifC03OnlyForm("echo " + rest)
	if msg != "" {
		return nil, msg
	}
	head, msg := verifC03SinglePrimary(fn.Head)
	if msg != "" {
		return nil, "head: " + msg
	}
	if head.Type != Bareword || head.Value != "echo" {
		return nil, fmt.Sprintf("head is %v %q, want bareword echo", head.Type, head.Value)
	}
	if len(fn.Args) != 1 {
		return nil, fmt.Sprintf("%d arguments, want 1", len(fn.Args))
	}
	return verifC03SinglePrimary(fn.Args[0])
}

func TestVerifBoundedC03(t *testing.T) {
	type pass struct {
		alpha          []string
		minLen, maxLen int
	}
	passes := []pass{{verifC03Alphabet, 0, 3}}
	if os.Getenv("VERIF_TIER") == "thorough" {
		passes = []pass{{verifC03Alphabet, 0, 4}, {verifC03Core, 5, 5}}
	}

	cases := 0
	byType := map[PrimaryType]int{}
	check := func(s string) {
		cases++
		// Quote and QuoteAs.
		for _, pref := range []PrimaryType{Bareword, SingleQuoted, DoubleQuoted} {
			q, actual := QuoteAs(s, pref)
			if pref == Bareword {
				if q2 := Quote(s); q2 != q {
					t.Fatalf("C03 violated for s=%q: Quote gives %q but QuoteAs(s, Bareword) gives %q", s, q2, q)
				}
				byType[actual]++
			}
			p, msg := verifC03EchoArg(q)
			if msg != "" {
				t.Fatalf("C03 violated for s=%q: QuoteAs(s, %v) = %q; parsing %q: %s", s, pref, q, "echo "+q, msg)
			}
			if !verifC03IsStringLiteral(p.Type) || p.Value != s {
				t.Fatalf("C03 violated for s=%q: QuoteAs(s, %v) = %q parses to %v with Value %q", s, pref, q, p.Type, p.Value)
			}
			if p.Type != actual {
				t.Fatalf("C03 violated for s=%q: QuoteAs(s, %v) = %q reports quoting %v but it parses as %v", s, pref, q, actual, p.Type)
			}
		}

		// QuoteVariableName.
		q := QuoteVariableName(s)
		p, msg := verifC03EchoArg("$" + q)
		if msg != "" {
			t.Fatalf("C03 violated for s=%q: QuoteVariableName = %q; parsing %q: %s", s, q, "echo $"+q, msg)
		}
		if p.Type != Variable || p.Value != s {
			t.Fatalf("C03 violated for s=%q: QuoteVariableName = %q; %q parses to %v with Value %q", s, q, "echo $"+q, p.Type, p.Value)
		}

		// QuoteCommandName.
		q = QuoteCommandName(s)
		code := q + " x"
		fn, msg := verifC03OnlyForm(code)
		if msg != "" {
			t.Fatalf("C03 violated for s=%q: QuoteCommandName = %q; parsing %q: %s", s, q, code, msg)
		}
		head, msg := verifC03SinglePrimary(fn.Head)
		if msg != "" {
			t.Fatalf("C03 violated for s=%q: QuoteCommandName = %q; parsing %q: head: %s", s, q, code, msg)
		}
		if !verifC03IsStringLiteral(head.Type) || head.Value != s {
			t.Fatalf("C03 violated for s=%q: QuoteCommandName = %q; head of %q is %v with Value %q", s, q, code, head.Type, head.Value)
		}
		if len(fn.Args) != 1 {
			t.Fatalf("C03 violated for s=%q: QuoteCommandName = %q; %q has %d arguments, want 1", s, q, code, len(fn.Args))
		}
		arg, msg := verifC03SinglePrimary(fn.Args[0])
		if msg != "" || arg.Type != Bareword || arg.Value != "x" {
			t.Fatalf("C03 violated for s=%q: QuoteCommandName = %q; argument of %q is not the bareword x (%s)", s, q, code, msg)
		}
	}

	for _, p := range passes {
		idx := make([]int, p.maxLen)
		buf := make([]byte, 0, 4*p.maxLen)
		for n := p.minLen; n <= p.maxLen; n++ {
			for i := range idx[:n] {
				idx[i] = 0
			}
			for {
				buf = buf[:0]
				for _, k := range idx[:n] {
					buf = append(buf, p.alpha[k]...)
				}
				check(string(buf))

				i := n - 1
				for i >= 0 {
					idx[i]++
					if idx[i] < len(p.alpha) {
						break
					}
					idx[i] = 0
					i--
				}
				if i < 0 {
					break
				}
			}
		}
		t.Logf("alphabet=%d symbols, lengths %d..%d done, cumulative cases=%d", len(p.alpha), p.minLen, p.maxLen, cases)
	}
	t.Logf("Quote chose: bareword=%d single-quoted=%d double-quoted=%d",
		byType[Bareword], byType[SingleQuoted], byType[DoubleQuoted])
	fmt.Printf("BOUNDED name=c03_quote cases=%d\n", cases)
}
