package parse

// Bounded-exhaustive harness for property C01: "parsing is total and lossless".
//
// For EVERY string made of at most L symbols of the alphabet below, Parse must
// return without panicking (and without hanging), and the returned tree must
// be a lossless tiling of the source:
//
//   - every node has 0 <= From <= To <= len(s);
//   - SourceText(n) == s[From:To];
//   - Parent(child) == n for every child;
//   - when a node has children they are in order, do not overlap, lie inside
//     the parent and tile it exactly (first.From == n.From, each next child
//     starts where the previous one ended, last.To == n.To);
//   - the root starts at 0, and the concatenation of all leaf source texts
//     followed by the unconsumed tail s[root.To:] equals s. The parser is
//     documented to stop at a rune that cannot continue a chunk and to report
//     "unexpected rune" for it (parser.done), so the tail may only be
//     non-empty when there is a parse error starting exactly at root.To; when
//     Parse returns no error the leaves alone must spell s;
//   - every reported parse error has a range inside [0, len(s)], and its
//     Partial flag is set iff the range starts at len(s).
//
// Bounds (symbols, not bytes; the 2-byte rune is one symbol):
//
//	quick    (default)             : all 31 symbols, length 0..4    ->     954,305 strings, ~2 s
//	thorough (VERIF_TIER=thorough) : all 31 symbols, length 0..5, plus
//	                                 the 22-symbol core alphabet at
//	                                 length exactly 6               -> 142,963,360 strings, ~4.5 min
//
// (one core; about 1.3-1.8 us per string).
//
// Known, already reported finding: a Redir node that has a Left operand (as
// in "a 2>b") gets SourceText ">b" but Range "2>b". That single check is
// skipped for exactly that node shape when VERIF_SKIP_KNOWN=1.

import (
	"fmt"
	"os"
	"sync/atomic"
	"testing"
	"time"
)

var verifC01Alphabet = []string{
	" ", "\n", "\r", "#", ";", "|", "&", "(", ")", "[", "]", "{", "}",
	"<", ">", "'", "\"", "$", "\\", "^", "~", "*", "=", "?", ",",
	"a", "e", "2",
	"é",    // 2-byte UTF-8 rune
	"\x80", // stray continuation byte
	"\xff", // byte that never occurs in UTF-8
}

// The syntactically significant subset used for the longest strings of the
// thorough tier.
var verifC01Core = []string{
	" ", "\n", ";", "|", "&", "(", ")", "[", "]", "{", "}",
	"<", ">", "'", "\"", "$", "^", "~", "=", "?", ",", "a",
}

type verifC01State struct {
	t         *testing.T
	s         string
	skipKnown bool
	leaves    []byte
	nodes     int
	knownSkip int // number of nodes for which the known Redir finding was skipped
}

func (st *verifC01State) failf(format string, args ...any) {
	st.t.Helper()
	st.t.Fatalf("C01 violated for input %q: %s", st.s, fmt.Sprintf(format, args...))
}

func (st *verifC01State) walk(n Node) {
	st.nodes++
	s := st.s
	r := n.Range()
	if !(0 <= r.From && r.From <= r.To && r.To <= len(s)) {
		st.failf("node %T has range [%d,%d) outside [0,%d]", n, r.From, r.To, len(s))
	}
	if got := SourceText(n); got != s[r.From:r.To] {
		known := false
		if rn, ok := n.(*Redir); ok && rn.Left != nil {
			known = true
		}
		if known && st.skipKnown {
			st.knownSkip++
		} else {
			st.failf("node %T range [%d,%d) is %q but SourceText is %q (known Redir finding: %v; set VERIF_SKIP_KNOWN=1 to skip it)",
				n, r.From, r.To, s[r.From:r.To], got, known)
		}
	}
	children := Children(n)
	if len(children) == 0 {
		// A leaf: contributes its range to the reconstruction.
		st.leaves = append(st.leaves, s[r.From:r.To]...)
		return
	}
	pos := r.From
	for i, ch := range children {
		if Parent(ch) != n {
			st.failf("child %d (%T) of %T [%d,%d) has a wrong parent pointer", i, ch, n, r.From, r.To)
		}
		cr := ch.Range()
		if cr.From != pos {
			st.failf("child %d (%T) of %T [%d,%d) starts at %d, want %d (children must tile the parent)",
				i, ch, n, r.From, r.To, cr.From, pos)
		}
		if cr.To < cr.From || cr.To > r.To {
			st.failf("child %d (%T) [%d,%d) of %T [%d,%d) is not inside the parent",
				i, ch, cr.From, cr.To, n, r.From, r.To)
		}
		pos = cr.To
	}
	if pos != r.To {
		st.failf("children of %T [%d,%d) end at %d, want %d", n, r.From, r.To, pos, r.To)
	}
	for _, ch := range children {
		st.walk(ch)
	}
}

func verifC01ParseNoPanic(t *testing.T, s string) (tree Tree, err error) {
	defer func() {
		if r := recover(); r != nil {
			t.Fatalf("C01 violated for input %q: Parse panicked: %v", s, r)
		}
	}()
	return Parse(Source{Name: "t", Code: s}, Config{})
}

func TestVerifBoundedC01(t *testing.T) {
	type pass struct {
		alpha          []string
		minLen, maxLen int
	}
	passes := []pass{{verifC01Alphabet, 0, 4}}
	if os.Getenv("VERIF_TIER") == "thorough" {
		passes = []pass{{verifC01Alphabet, 0, 5}, {verifC01Core, 6, 6}}
	}
	st := &verifC01State{t: t, skipKnown: os.Getenv("VERIF_SKIP_KNOWN") == "1"}

	// Watchdog for the "must terminate" half of totality: if one input takes
	// more than 30 s, report it instead of waiting for the go test timeout.
	var progress atomic.Int64
	var current atomic.Pointer[string]
	stop := make(chan struct{})
	defer close(stop)
	go func() {
		last := int64(-1)
		tick := time.NewTicker(30 * time.Second)
		defer tick.Stop()
		for {
			select {
			case <-stop:
				return
			case <-tick.C:
				now := progress.Load()
				if now == last {
					in := "<unknown>"
					if p := current.Load(); p != nil {
						in = *p
					}
					panic(fmt.Sprintf("C01 violated: Parse did not terminate within 30s near input %q (case %d)", in, now))
				}
				last = now
			}
		}
	}()

	cases, withErr := 0, 0
	for _, p := range passes {
		alpha := p.alpha
		idx := make([]int, p.maxLen)
		buf := make([]byte, 0, 2*p.maxLen)
		for n := p.minLen; n <= p.maxLen; n++ {
			for i := range idx[:n] {
				idx[i] = 0
			}
			for {
				buf = buf[:0]
				for _, k := range idx[:n] {
					buf = append(buf, alpha[k]...)
				}
				s := string(buf)
				if cases&0xfff == 0 {
					// Cheap breadcrumb for the watchdog.
					cp := s
					current.Store(&cp)
				}
				progress.Add(1)

				tree, err := verifC01ParseNoPanic(t, s)
				cases++
				st.s = s
				st.leaves = st.leaves[:0]
				if tree.Root == nil {
					st.failf("Parse returned a nil root")
				}
				if tree.Source.Code != s {
					st.failf("Tree.Source.Code is %q", tree.Source.Code)
				}
				st.walk(tree.Root)

				errs := UnpackErrors(err)
				if err != nil && len(errs) == 0 {
					st.failf("Parse returned an error that is not a list of parse errors: %T %v", err, err)
				}
				if err != nil {
					withErr++
				}
				for i, e := range errs {
					er := e.Range()
					if !(0 <= er.From && er.From <= er.To && er.To <= len(s)) {
						st.failf("error %d (%s) has range [%d,%d) outside [0,%d]", i, e.Message, er.From, er.To, len(s))
					}
					if e.Partial != (er.From == len(s)) {
						st.failf("error %d (%s) at [%d,%d) has Partial=%v", i, e.Message, er.From, er.To, e.Partial)
					}
				}

				root := tree.Root.Range()
				if root.From != 0 {
					st.failf("root starts at %d", root.From)
				}
				if string(st.leaves)+s[root.To:] != s {
					st.failf("leaves spell %q, unconsumed tail %q", st.leaves, s[root.To:])
				}
				if root.To != len(s) {
					// Unconsumed tail: allowed only together with an error that
					// points at the first unconsumed byte.
					found := false
					for _, e := range errs {
						if e.Range().From == root.To {
							found = true
						}
					}
					if !found {
						st.failf("root ends at %d < %d but no error starts there (errors: %v)", root.To, len(s), err)
					}
				}

				// Next string of the same length (odometer, last symbol fastest).
				i := n - 1
				for i >= 0 {
					idx[i]++
					if idx[i] < len(alpha) {
						break
					}
					idx[i] = 0
					i--
				}
				if i < 0 {
					break
				}
			}
		}
		t.Logf("pass alphabet=%d symbols, lengths %d..%d done, cumulative cases=%d", len(alpha), p.minLen, p.maxLen, cases)
	}
	t.Logf("inputs with errors=%d, nodes walked=%d, skipKnown=%v (skipped %d Redir nodes)",
		withErr, st.nodes, st.skipKnown, st.knownSkip)
	fmt.Printf("BOUNDED name=c01_parse cases=%d\n", cases)
}
