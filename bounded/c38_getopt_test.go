package getopt

// Bounded-exhaustive harness for property C38: "option parsing matches
// GNU/BSD getopt_long semantics".
//
// Parse is compared with verifRefGetopt, an independent re-implementation of
// getopt_long / getopt_long_only written from the GNU manual, on ALL argument
// lists of at most N tokens drawn from verifC38Pool, for every subset of the
// four option specs below and for all 8 Config values. Compared: the parsed
// options in order (spec identity or unknown name, Long flag, Unknown flag,
// Argument), the non-option arguments in order, and whether an error is
// returned.
//
// Where the package DOCUMENTS behaviour that differs from GNU getopt_long, the
// reference follows the package documentation:
//
//   - "--" only terminates option parsing when the Config has
//     StopAfterDoubleDash (GNU: always); without it "--" is an ordinary
//     non-option argument (getopt_test.go "StopAfterDoubleDash off").
//   - Non-options are permuted to the end (GNU default) unless the Config has
//     StopBeforeFirstNonOption (BSD / POSIXLY_CORRECT), in which case the first
//     non-option ends option parsing.
//   - LongOnly: "Allow long options to start with "-", and disallow short
//     options" - unlike getopt_long_only there is no fallback to short options
//     for "-x" that is not a long option.
//   - Unknown options are not dropped: they are returned with Unknown == true
//     and are "assumed to take optional arguments" (doc of Complete and the
//     existing Parse tests), so "-zfoo" is the unknown option z with argument
//     "foo" (GNU: '?' for z, then continues with the cluster "foo"), and an
//     error is returned.
//   - A required argument that is missing makes Parse return an error and the
//     option is not in the returned list (GNU: returns '?' or ':').
//   - Long options must be spelled exactly. GNU accepts unambiguous
//     abbreviations ("--nam" for "--name"); the package does not implement or
//     document them (LongOnly refers to Go's flag package, which has none), so
//     the reference has them switched off (verifRefAbbrev) and "-a" in LongOnly
//     mode is the unknown long option "a", not an abbreviation of "all".
//
// Three places where Parse deviates (or deviated) from GNU WITHOUT documentation
// are kept as failing checks (reported as findings). With VERIF_SKIP_KNOWN=1 a
// case that disagrees with the strict reference is additionally compared with a
// reference that imitates Parse for exactly these shapes, and is accepted if
// that one agrees, so that the rest of the space can be compared and the
// harness passes both on a tree that has the deviation and on one where it is
// fixed (VERIF_SKIP_KNOWN=F1, =F2 or =F3 tolerates only one of them):
//
//	F1. "--all=v" for a NoArgument option: GNU rejects it ("option '--all'
//	    doesn't allow an argument"); Parse returns the option with
//	    Argument "v" and no error.
//	F2. "--=v" (empty long name): must be an unknown option, but Parse matches
//	    it against any spec whose Long is "" (documented as "short-only").
//	F3. "--all=" (explicitly attached EMPTY argument) for a NoArgument option:
//	    GNU rejects it exactly like "--all=v" (the test is "is there an '='",
//	    not "is the value non-empty"); Parse cannot tell "--all=" from "--all"
//	    (Option.Argument is "" for both) and returns the option without error.
//
// An explicitly attached empty argument for an option that takes one
// ("--name=", "--opt=") means the argument IS given and is "": "--name= x"
// yields name="" and the operand x, exactly as getopt_long does.
//
// Bounds:
//
//	quick    (default)             : 25-token pool, 0..3 tokens, 16 spec sets, 8 configs ->  2,083,328 cases
//	thorough (VERIF_TIER=thorough) : 25-token pool, 0..4 tokens, 16 spec sets, 8 configs -> 52,083,328 cases

import (
	"fmt"
	"os"
	"strings"
	"testing"
	"unicode/utf8"
)

var verifC38Pool = []string{
	"-a", "-b", "-ab", "-bx", "-c", "-cval", "-z", "-d",
	"--all", "--name", "--name=v", "--opt", "--opt=v", "--bogus", "--all=v", "--=v",
	// Explicitly attached EMPTY arguments: the argument IS given (and is ""),
	// exactly as getopt_long treats "--name=" (optarg = "" and, for a required
	// argument, the next token is NOT consumed). "--all=" is the same shape as
	// F1 with an empty value: GNU rejects it as well. The empty separate
	// argument (-b "" / --name "") is covered by the "" token below.
	"--name=", "--opt=", "--all=",
	"-all", "-name=v",
	"--", "-", "x", "",
}

var verifC38Specs = []*OptionSpec{
	{Short: 'a', Long: "all", Arity: NoArgument},
	{Short: 'b', Long: "name", Arity: RequiredArgument},
	{Short: 'c', Long: "opt", Arity: OptionalArgument},
	{Short: 'd', Long: "", Arity: NoArgument}, // short-only
}

// verifRefOpt is one option reported by the reference implementation.
type verifRefOpt struct {
	spec    *OptionSpec // nil for unknown options
	name    string      // for unknown options: the short rune or the long name
	long    bool
	unknown bool
	arg     string
}

// GNU getopt_long accepts unambiguous abbreviations of long options. The
// package under test does not (see the header comment).
const verifRefAbbrev = false

type verifRefMode struct {
	stopAfterDoubleDash bool // "--" terminates option parsing
	requireOrder        bool // stop at the first non-option (BSD / POSIXLY_CORRECT)
	longOnly            bool // getopt_long_only without short options
	imitateF1           bool // VERIF_SKIP_KNOWN: accept --noarg=value
	imitateF2           bool // VERIF_SKIP_KNOWN: let "--=v" match a spec with Long == ""
	imitateF3           bool // VERIF_SKIP_KNOWN: accept --noarg= (empty attached value)
}

// verifRefGetopt is the reference: an independent getopt_long loop.
func verifRefGetopt(argv []string, specs []*OptionSpec, m verifRefMode) (opts []verifRefOpt, nonOpts []string, bad bool) {
	optind := 0
	for optind < len(argv) {
		arg := argv[optind]
		optind++

		if arg == "--" && m.stopAfterDoubleDash {
			// Everything after "--" is an operand.
			nonOpts = append(nonOpts, argv[optind:]...)
			break
		}
		isOption := len(arg) >= 2 && arg[0] == '-' && arg != "--"
		if !isOption {
			// "", "-", "x", and "--" when it is not special.
			nonOpts = append(nonOpts, arg)
			if m.requireOrder {
				nonOpts = append(nonOpts, argv[optind:]...)
				break
			}
			continue
		}

		if strings.HasPrefix(arg, "--") || m.longOnly {
			body := arg[1:] // LongOnly: one dash is enough
			if strings.HasPrefix(arg, "--") {
				body = arg[2:]
			}
			name, value, hasValue := strings.Cut(body, "=")

			var spec *OptionSpec
			for _, sp := range specs {
				if sp.Long == "" && !(m.imitateF2 && hasValue) {
					continue // short-only spec: has no long name
				}
				if sp.Long == name {
					spec = sp
					break
				}
			}
			if spec == nil && verifRefAbbrev && name != "" {
				var cands []*OptionSpec
				for _, sp := range specs {
					if sp.Long != "" && strings.HasPrefix(sp.Long, name) {
						cands = append(cands, sp)
					}
				}
				if len(cands) == 1 {
					spec = cands[0]
				}
			}
			if spec == nil {
				// Unknown: reported, assumed to take an optional argument.
				opts = append(opts, verifRefOpt{name: name, long: true, unknown: true, arg: value})
				bad = true
				continue
			}
			switch spec.Arity {
			case NoArgument:
				if hasValue && !(m.imitateF1 && value != "") && !(m.imitateF3 && value == "") {
					// option '--name' doesn't allow an argument
					bad = true
					continue
				}
				opts = append(opts, verifRefOpt{spec: spec, long: true, arg: value})
			case RequiredArgument:
				if hasValue {
					opts = append(opts, verifRefOpt{spec: spec, long: true, arg: value})
				} else if optind < len(argv) {
					opts = append(opts, verifRefOpt{spec: spec, long: true, arg: argv[optind]})
					optind++
				} else {
					bad = true // option requires an argument
				}
			case OptionalArgument:
				opts = append(opts, verifRefOpt{spec: spec, long: true, arg: value})
			}
			continue
		}

		// A cluster of short options.
		nextchar := arg[1:]
		for nextchar != "" {
			c, size := utf8.DecodeRuneInString(nextchar)
			nextchar = nextchar[size:]
			var spec *OptionSpec
			for _, sp := range specs {
				if sp.Short != 0 && sp.Short == c {
					spec = sp
					break
				}
			}
			if spec == nil {
				// Unknown: reported, assumed to take an optional argument, so
				// the rest of the cluster is its argument.
				opts = append(opts, verifRefOpt{name: string(c), unknown: true, arg: nextchar})
				bad = true
				break
			}
			if spec.Arity == NoArgument {
				opts = append(opts, verifRefOpt{spec: spec})
				continue
			}
			if spec.Arity == OptionalArgument || nextchar != "" {
				// -ovalue; an optional argument can only be attached.
				opts = append(opts, verifRefOpt{spec: spec, arg: nextchar})
			} else if optind < len(argv) {
				// -o value
				opts = append(opts, verifRefOpt{spec: spec, arg: argv[optind]})
				optind++
			} else {
				bad = true // option requires an argument
			}
			break
		}
	}
	return opts, nonOpts, bad
}

func verifC38Describe(opts []*Option) string {
	var sb strings.Builder
	for _, o := range opts {
		if o == nil || o.Spec == nil {
			sb.WriteString(" <nil>")
			continue
		}
		fmt.Fprintf(&sb, " {short=%q long=%q arity=%v unknown=%v isLong=%v arg=%q}",
			o.Spec.Short, o.Spec.Long, o.Spec.Arity, o.Unknown, o.Long, o.Argument)
	}
	return sb.String()
}

func verifC38DescribeRef(opts []verifRefOpt) string {
	var sb strings.Builder
	for _, o := range opts {
		if o.unknown {
			fmt.Fprintf(&sb, " {unknown %q isLong=%v arg=%q}", o.name, o.long, o.arg)
		} else {
			fmt.Fprintf(&sb, " {short=%q long=%q isLong=%v arg=%q}", o.spec.Short, o.spec.Long, o.long, o.arg)
		}
	}
	return sb.String()
}

// verifC38Same compares Parse's result with the reference's.
func verifC38Same(opts []*Option, rest []string, err error, ropts []verifRefOpt, rrest []string, rbad bool) string {
	if (err != nil) != rbad {
		return fmt.Sprintf("error-ness differs: Parse err=%v, reference error=%v", err, rbad)
	}
	if len(opts) != len(ropts) {
		return "number of options differs"
	}
	for i, o := range opts {
		r := ropts[i]
		if o == nil || o.Spec == nil {
			return fmt.Sprintf("option %d is nil or has a nil Spec", i)
		}
		if o.Unknown != r.unknown || o.Long != r.long || o.Argument != r.arg {
			return fmt.Sprintf("option %d differs", i)
		}
		if r.unknown {
			// Documented shape of unknown options: a fresh spec carrying the
			// name, with OptionalArgument arity.
			want := OptionSpec{Arity: OptionalArgument}
			if r.long {
				want.Long = r.name
			} else {
				want.Short, _ = utf8.DecodeRuneInString(r.name)
			}
			if *o.Spec != want {
				return fmt.Sprintf("unknown option %d has spec %+v, want %+v", i, *o.Spec, want)
			}
		} else if o.Spec != r.spec {
			return fmt.Sprintf("option %d refers to a different spec", i)
		}
	}
	if len(rest) != len(rrest) {
		return "number of non-option arguments differs"
	}
	for i := range rest {
		if rest[i] != rrest[i] {
			return fmt.Sprintf("non-option argument %d differs", i)
		}
	}
	return ""
}

func TestVerifBoundedC38(t *testing.T) {
	maxTokens := 3
	if os.Getenv("VERIF_TIER") == "thorough" {
		maxTokens = 4
	}
	// VERIF_SKIP_KNOWN=1 tolerates all findings; =F1, =F2 or =F3 only that one.
	skipKnown := os.Getenv("VERIF_SKIP_KNOWN")
	skipF1 := skipKnown == "1" || skipKnown == "F1"
	skipF2 := skipKnown == "1" || skipKnown == "F2"
	skipF3 := skipKnown == "1" || skipKnown == "F3"
	pool := verifC38Pool

	// All subsets of the specs, in the specs' order.
	var specSets [][]*OptionSpec
	for mask := 0; mask < 1<<len(verifC38Specs); mask++ {
		var set []*OptionSpec
		for i, sp := range verifC38Specs {
			if mask&(1<<i) != 0 {
				set = append(set, sp)
			}
		}
		specSets = append(specSets, set)
	}
	// All Config values: every combination of the three flag bits.
	var cfgs []Config
	for c := Config(0); c < 8; c++ {
		cfgs = append(cfgs, c)
	}
	if StopAfterDoubleDash|StopBeforeFirstNonOption|LongOnly != 7 {
		t.Fatalf("Config bits are not 1|2|4; adjust the enumeration")
	}

	cases, withErr, tolerated := 0, 0, 0
	idx := make([]int, maxTokens)
	for n := 0; n <= maxTokens; n++ {
		for i := range idx[:n] {
			idx[i] = 0
		}
		for {
			args := make([]string, n)
			for i, k := range idx[:n] {
				args[i] = pool[k]
			}
			for _, specs := range specSets {
				for _, cfg := range cfgs {
					cases++
					mode := verifRefMode{
						stopAfterDoubleDash: cfg&StopAfterDoubleDash != 0,
						requireOrder:        cfg&StopBeforeFirstNonOption != 0,
						longOnly:            cfg&LongOnly != 0,
					}
					ropts, rrest, rbad := verifRefGetopt(args, specs, mode)

					var (
						opts []*Option
						rest []string
						err  error
					)
					func() {
						defer func() {
							if r := recover(); r != nil {
								t.Fatalf("C38 violated: Parse(%q, %s, %v) panicked: %v", args, verifC38SpecNames(specs), cfg, r)
							}
						}()
						// Parse must not modify its inputs either.
						in := append([]string(nil), args...)
						opts, rest, err = Parse(in, specs, cfg)
						for i := range in {
							if in[i] != args[i] {
								t.Fatalf("C38 violated: Parse(%q, ...) modified its argument list to %q", args, in)
							}
						}
					}()
					if err != nil {
						withErr++
					}
					msg := verifC38Same(opts, rest, err, ropts, rrest, rbad)
					if msg != "" && (skipF1 || skipF2 || skipF3) {
						// Known findings: accept the case if the reference that
						// imitates exactly the tolerated shapes agrees.
						// Every subset of the tolerated findings is tried, so
						// that a tree in which only some of them are fixed passes.
						for sub := 1; sub < 8 && msg != ""; sub++ {
							imode := mode
							imode.imitateF1 = skipF1 && sub&1 != 0
							imode.imitateF2 = skipF2 && sub&2 != 0
							imode.imitateF3 = skipF3 && sub&4 != 0
							iopts, irest, ibad := verifRefGetopt(args, specs, imode)
							if verifC38Same(opts, rest, err, iopts, irest, ibad) == "" {
								tolerated++
								msg = ""
							}
						}
					}
					if msg != "" {
						t.Fatalf("C38 violated for args=%q specs=%s cfg=%v (%d): %s\n  Parse:     opts=%s rest=%q err=%v\n  reference: opts=%s rest=%q error=%v\n  (VERIF_SKIP_KNOWN=1 tolerates the reported findings F1 \"--noarg=v\", F2 \"--=v\" and F3 \"--noarg=\")",
							args, verifC38SpecNames(specs), cfg, uint(cfg), msg,
							verifC38Describe(opts), rest, err,
							verifC38DescribeRef(ropts), rrest, rbad)
					}
				}
			}

			i := n - 1
			for i >= 0 {
				idx[i]++
				if idx[i] < len(pool) {
					break
				}
				idx[i] = 0
				i--
			}
			if i < 0 {
				break
			}
		}
	}
	t.Logf("pool=%d tokens, up to %d tokens, %d spec sets, %d configs, cases with error=%d, skip F1=%v F2=%v F3=%v, cases accepted only through a tolerated finding=%d",
		len(pool), maxTokens, len(specSets), len(cfgs), withErr, skipF1, skipF2, skipF3, tolerated)
	fmt.Printf("BOUNDED name=c38_getopt cases=%d\n", cases)
}

func verifC38SpecNames(specs []*OptionSpec) string {
	var parts []string
	for _, sp := range specs {
		parts = append(parts, fmt.Sprintf("-%c/--%s:%v", sp.Short, sp.Long, sp.Arity))
	}
	return "[" + strings.Join(parts, " ") + "]"
}
