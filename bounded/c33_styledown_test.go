package styledown

// Bounded exhaustive harness for property C33 (styledown part): rendering the
// markup produced by Derender gives back the text, Render(Derender(t)) == t, for
// ALL normal-form texts of at most maxSegs segments over the styles {plain, bold,
// inverse} (the ones with builtin style characters) and the segment strings of
// the pool below, with and without the no-eol option that Derender chooses
// itself. Nothing is sampled. The bound is stated in props.json.

import (
	"fmt"
	"os"
	"reflect"
	"testing"

	"src.elv.sh/pkg/ui"
)

func TestVerifBoundedC33Styledown(t *testing.T) {
	pool := []string{"a", "b ", "\n", "世", "\n\n", "a\n"}
	maxSegs := 4
	if os.Getenv("VERIF_TIER") == "thorough" {
		pool = append(pool, " ", "\nb")
		maxSegs = 5
	}
	styles := []ui.Style{{}, {Bold: true}, {Inverse: true}}
	count := 0
	var rec func(cur ui.Text)
	check := func(txt ui.Text) {
		count++
		src, err := Derender(txt, "")
		if err != nil {
			t.Fatalf("Derender(%v): %v", txt, err)
		}
		back, err := Render(src)
		if err != nil {
			t.Fatalf("Render(Derender(%v)) = error %v (markup %q)", txt, err, src)
		}
		want := txt
		if skipKnown {
			// recorded known finding: styledown has no way to style a newline, so the
			// style of newline characters is lost; compare modulo that
			want, back = plainNewlines(want), plainNewlines(back)
		}
		if !reflect.DeepEqual(normalize(back), normalize(want)) {
			t.Fatalf("Render(Derender(t)) != t\n t      = %v\n markup = %q\n back   = %v", txt, src, back)
		}
	}
	rec = func(cur ui.Text) {
		check(cur)
		if len(cur) == maxSegs {
			return
		}
		for _, st := range styles {
			if len(cur) > 0 && cur[len(cur)-1].Style == st {
				continue // normal form: adjacent segments differ in style
			}
			for _, s := range pool {
				next := append(append(ui.Text(nil), cur...), &ui.Segment{Style: st, Text: s})
				rec(next)
			}
		}
	}
	rec(nil)
	fmt.Printf("BOUNDED name=c33-styledown cases=%d\n", count)
	if count < 1000 {
		t.Fatalf("enumeration too small: %d", count)
	}
}

var skipKnown = os.Getenv("VERIF_SKIP_KNOWN") == "1"

// plainNewlines rebuilds t with every newline character unstyled (through the
// normalising builder, so the result is in normal form).
func plainNewlines(t ui.Text) ui.Text {
	var tb ui.TextBuilder
	for _, seg := range t {
		for _, r := range seg.Text {
			if r == '\n' {
				tb.WriteText(ui.T("\n"))
			} else {
				tb.WriteText(ui.Text{&ui.Segment{Style: seg.Style, Text: string(r)}})
			}
		}
	}
	return tb.Text()
}

// normalize maps the empty text to nil so that nil and empty compare equal.
func normalize(t ui.Text) ui.Text {
	if len(t) == 0 {
		return nil
	}
	return t
}
