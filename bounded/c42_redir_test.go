package eval

// Bounded-exhaustive harness for property C42: "redirections route bytes and
// values exactly as specified; files the form opened are closed afterwards,
// files/ports the program supplied are NOT closed".
//
// Real Elvish code is evaluated with NewEvaler + Eval, with a regular file as
// stdin and capture ports as stdout/stderr, and compared with a small explicit
// reference model of redirection semantics (verifC42Model) written from
// website/ref/language.md, section "Redirection", and POSIX open/dup semantics:
//
//   - ">"  opens with O_WRONLY|O_CREAT|O_TRUNC, default port 1;
//   - ">>" opens with O_WRONLY|O_CREAT|O_APPEND, default port 1;
//   - "<"  opens with O_RDONLY (the file must exist), default port 0;
//   - "<>" opens with O_RDWR|O_CREAT, no truncation, and - as the reference
//     documents, unlike POSIX sh - its default port is 1 (stdout);
//   - "N> file" uses port N;
//   - a file object as the source is used as is (same open file, same offset);
//   - ">&N" makes the destination the same port as N (same open file
//     description and same value channel); "&-" closes the destination: byte
//     output and value output both raise an exception;
//   - redirections are applied left to right; a later redirection of the same
//     port wins (the earlier file is still created/truncated); if opening a
//     file fails the form raises an exception, later redirections are not
//     applied and the command does not run;
//   - a port redirected to a file has no value channel: "<" gives one that
//     never produces values, ">", ">>", "<>" give one that raises the
//     exception "port does not support value output" (the file IS
//     created/truncated before that);
//   - stdin is unaffected by anything but "<".
//
// Enumerated: ALL forms "CMD R1 R2" (thorough: ALL forms "CMD R1 R2 R3"; quick
// also runs "CMD R1 R2 R3" for the fifth command only, with pre-existing files,
// in the "try" way of running) with
//
//	CMD in  echo x | print y | put z | { echo inner } |
//	        { echo inner; echo err >&2 }   (the documented example, makes the
//	                                        routing of port 2 observable) |
//	        print (slurp)                  (makes the routing of port 0
//	                                        observable)
//	Ri  in  (nothing) | > F1 | >> F1 | < F1 | <> F1 | > $fobj | >&2 | 2>&1 |
//	        >&- | 2> F2 | 3> F1
//
// where $fobj is a file object supplied by the program (opened by the harness
// with os.OpenFile and kept in a variable), F1/F2 either pre-exist with content
// "OLD\n"/"OLD2\n" or do not exist, and with two ways of running the form:
// "plain" (the form is one Eval, `echo again > $fobj` a second Eval on the
// same Evaler) and "try" (one Eval of
// `var exc = $nil; try { FORM } catch e { set exc = $e }; echo again > $fobj`).
//
// Checked for every case:
//
//	(a) the bytes in F1, F2, the file behind $fobj, the captured stdout and
//	    stderr bytes and values, and the class of exception raised by the form
//	    (none / cannot open file / value output not supported / write to a
//	    closed port) are those of the model;
//	(b) after the form the program-supplied file object is still usable:
//	    `echo again > $fobj` succeeds and its bytes land in the file right
//	    after the form's output, a direct write by the harness succeeds too;
//	    the supplied stdin/stdout/stderr port files are still open (a marker
//	    written afterwards arrives);
//	(c) files the form opened are closed: after the evaluation no descriptor
//	    in /proc/self/fd refers to F1 or F2, exactly one refers to the file
//	    behind $fobj and one to the stdin file, and the total number of open
//	    descriptors after evaluating the same script twice is the same;
//	(d) no panic.
//
// Where the documentation is silent the current behaviour is recorded as
// expected (marked "RECORDED" below):
//
//   - RECORDED: writing bytes to a port closed with >&- raises an exception
//     whose reason is os.ErrInvalid ("invalid argument") for builtins; the
//     reference only shows an external command. The model only requires "an
//     exception that is neither of the other two classes".
//   - RECORDED: when a redirection fails to open its file, the redirections to
//     its left have already taken effect (files created/truncated).
//   - RECORDED: "> $fobj" writes at the file object's current offset and
//     advances it (the file object is shared, not re-opened).
//
// KNOWN FINDING (only reachable with three redirections): see
// verifC42DanglingDup below. VERIF_SKIP_KNOWN=1 skips exactly the
// cases of that class.

import (
	"fmt"
	"os"
	"path/filepath"
	"runtime"
	"runtime/debug"
	"strings"
	"testing"
	"time"

	"src.elv.sh/pkg/eval/vals"
	"src.elv.sh/pkg/eval/vars"
	"src.elv.sh/pkg/parse"
)

// ---------------------------------------------------------------- the space

type verifC42Redir struct {
	text string // Elvish source; F1/F2 are replaced by quoted absolute paths
	kind byte   // 'f' file name, 'o' file object, 'd' dup, 'c' close, 0 nothing
	dst  int
	mode byte   // for 'f'/'o': '>' write, 'a' append, '<' read, 'r' read-write
	file string // for 'f': "F1" or "F2"
	src  int    // for 'd'
}

var verifC42Redirs = []verifC42Redir{
	{text: ""},
	{text: "> F1", kind: 'f', dst: 1, mode: '>', file: "F1"},
	{text: ">> F1", kind: 'f', dst: 1, mode: 'a', file: "F1"},
	{text: "< F1", kind: 'f', dst: 0, mode: '<', file: "F1"},
	{text: "<> F1", kind: 'f', dst: 1, mode: 'r', file: "F1"},
	{text: "> $fobj", kind: 'o', dst: 1, mode: '>'},
	{text: ">&2", kind: 'd', dst: 1, src: 2},
	{text: "2>&1", kind: 'd', dst: 2, src: 1},
	{text: ">&-", kind: 'c', dst: 1},
	{text: "2> F2", kind: 'f', dst: 2, mode: '>', file: "F2"},
	{text: "3> F1", kind: 'f', dst: 3, mode: '>', file: "F1"},
}

// A command is a sequence of steps executed until the first one fails.
type verifC42Step struct {
	op   byte   // 'w' write bytes to port, 'v' put value to port, 's' slurp port 0 and write the result to port 1
	port int    // the port as seen INSIDE the command (after an inner >&2: 2)
	data string // bytes or value
}

type verifC42Cmd struct {
	text  string
	steps []verifC42Step
}

var verifC42Cmds = []verifC42Cmd{
	{"echo x", []verifC42Step{{'w', 1, "x\n"}}},
	{"print y", []verifC42Step{{'w', 1, "y"}}},
	{"put z", []verifC42Step{{'v', 1, "z"}}},
	{"{ echo inner }", []verifC42Step{{'w', 1, "inner\n"}}},
	// `echo err >&2` inside the block writes to whatever port 2 of the block is.
	{"{ echo inner; echo err >&2 }", []verifC42Step{{'w', 1, "inner\n"}, {'w', 2, "err\n"}}},
	{"print (slurp)", []verifC42Step{{'s', 0, ""}}},
}

const (
	verifC42Stdin = "stdin-data\n"
	verifC42Old1  = "OLD\n"
	verifC42Old2  = "OLD2\n"
)

// ---------------------------------------------------------------- the model

// An open file description: shared by all ports that were dup'ed from it.
type verifC42OFD struct {
	name     string // "F1", "F2", "FO", "STDIN", "STDOUT", "STDERR"
	off      int
	app      bool
	canRead  bool
	canWrite bool
	// Closed by the implementation while another port still refers to it
	// (only set when modelling the known finding).
	dangling bool
}

type verifC42Port struct {
	ofd  *verifC42OFD // nil: closed with &-
	vals *[]string    // nil: value output raises an exception
}

type verifC42Obs struct {
	f1, f2         string // "<absent>" if the file does not exist
	fo             string
	outB, errB     string
	outV, errV     []string
	exc            string // "", "open", "value", "write"
	usedDanglingFD bool   // model only
}

const verifC42Absent = "<absent>"

func verifC42Model(cmd verifC42Cmd, redirs []verifC42Redir, pre bool) verifC42Obs {
	files := map[string]*string{}
	set := func(name, content string) { c := content; files[name] = &c }
	if pre {
		set("F1", verifC42Old1)
		set("F2", verifC42Old2)
	}
	set("FO", "")
	set("STDIN", verifC42Stdin)
	var outB, errB string
	var outV, errV []string
	files["STDOUT"], files["STDERR"] = &outB, &errB

	fobj := &verifC42OFD{name: "FO", canWrite: true}
	ports := []*verifC42Port{
		{ofd: &verifC42OFD{name: "STDIN", canRead: true}},
		{ofd: &verifC42OFD{name: "STDOUT", canWrite: true, app: true}, vals: &outV},
		{ofd: &verifC42OFD{name: "STDERR", canWrite: true, app: true}, vals: &errV},
		nil,
	}
	// owned[i]: port i's file was opened by this form for port i.
	owned := make([]bool, 4)
	obs := verifC42Obs{}

	write := func(p *verifC42Port, data string) bool {
		if p == nil || p.ofd == nil || !p.ofd.canWrite {
			return false
		}
		if p.ofd.dangling {
			obs.usedDanglingFD = true
		}
		c := files[p.ofd.name]
		if p.ofd.app {
			p.ofd.off = len(*c)
		}
		b := []byte(*c)
		for len(b) < p.ofd.off {
			b = append(b, 0)
		}
		b = append(b[:p.ofd.off], append([]byte(data), b[min(len(b), p.ofd.off+len(data)):]...)...)
		*c = string(b)
		p.ofd.off += len(data)
		return true
	}

	exc := ""
	for _, r := range redirs {
		if r.kind == 0 {
			continue
		}
		// Re-redirecting a port whose file this form opened closes that file
		// in the implementation. Under dup semantics the open file description
		// stays alive while another port refers to it.
		if owned[r.dst] {
			old := ports[r.dst]
			for i, p := range ports {
				if i != r.dst && p != nil && old != nil && p.ofd == old.ofd {
					old.ofd.dangling = true
				}
			}
			owned[r.dst] = false
		}
		switch r.kind {
		case 'f':
			c, exists := files[r.file]
			switch r.mode {
			case '<':
				if !exists {
					exc = "open"
				}
			case '>':
				set(r.file, "")
			case 'a', 'r':
				if !exists {
					set(r.file, "")
				}
			}
			_ = c
			if exc != "" {
				break
			}
			ofd := &verifC42OFD{name: r.file}
			switch r.mode {
			case '<':
				ofd.canRead = true
			case '>':
				ofd.canWrite = true
			case 'a':
				ofd.canWrite, ofd.app = true, true
			case 'r':
				ofd.canRead, ofd.canWrite = true, true
			}
			ports[r.dst] = &verifC42Port{ofd: ofd}
			owned[r.dst] = true
		case 'o':
			ports[r.dst] = &verifC42Port{ofd: fobj}
		case 'd':
			ports[r.dst] = ports[r.src] // never nil in this space
		case 'c':
			ports[r.dst] = &verifC42Port{}
		}
		if exc != "" {
			break
		}
	}

	if exc == "" {
	steps:
		for _, st := range cmd.steps {
			switch st.op {
			case 'w':
				if !write(ports[st.port], st.data) {
					exc = "write"
					break steps
				}
			case 'v':
				p := ports[st.port]
				if p == nil || p.vals == nil {
					exc = "value"
					break steps
				}
				*p.vals = append(*p.vals, st.data)
			case 's':
				in := ports[0].ofd
				c := *files[in.name]
				data := c[min(in.off, len(c)):]
				in.off = len(c)
				if !write(ports[1], data) {
					exc = "write"
					break steps
				}
			}
		}
	}
	obs.exc = exc

	// After the form: `echo again > $fobj`, then the harness writes "go\n"
	// through the same file object, and markers to the stdout/stderr files.
	write(&verifC42Port{ofd: fobj}, "again\n")
	write(&verifC42Port{ofd: fobj}, "go\n")
	outB += "after-out\n"
	errB += "after-err\n"

	get := func(name string) string {
		if c, ok := files[name]; ok {
			return *c
		}
		return verifC42Absent
	}
	obs.f1, obs.f2, obs.fo = get("F1"), get("F2"), get("FO")
	obs.outB, obs.errB, obs.outV, obs.errV = outB, errB, outV, errV
	return obs
}

// verifC42DanglingDup: KNOWN FINDING (class skipped by VERIF_SKIP_KNOWN=1).
//
// A form that (1) redirects port A to a file NAME, (2) duplicates A to another
// port B with B>&A, and (3) redirects A again, leaves B referring to a CLOSED
// file: redirOp.exec closes the file it opened for A when A is redirected
// again (dstFop.close), although the Port - with the same *os.File - was
// copied to B. With "duplicating" semantics (language.md: "&src means
// duplicating the src port to the destination port"; dup2 in every shell) B
// must stay usable: `{ echo inner; echo err >&2 } > F1 2>&1 > F2` must put
// "err" in F1. The class is: the model wrote through a description marked
// dangling.

// ---------------------------------------------------------------- real runs

func verifC42ReadFile(path string) string {
	b, err := os.ReadFile(path)
	if err != nil {
		if os.IsNotExist(err) {
			return verifC42Absent
		}
		return "<error: " + err.Error() + ">"
	}
	return string(b)
}

// Lists the targets of all open descriptors; ok is false if /proc is not
// available.
func verifC42Fds() (targets []string, ok bool) {
	ents, err := os.ReadDir("/proc/self/fd")
	if err != nil {
		return nil, false
	}
	for _, e := range ents {
		target, err := os.Readlink("/proc/self/fd/" + e.Name())
		if err != nil {
			// The descriptor used for reading the directory is gone by now.
			continue
		}
		targets = append(targets, target)
	}
	return targets, true
}

func verifC42Classify(err error) string {
	if err == nil {
		return ""
	}
	exc, ok := err.(Exception)
	if !ok {
		return "<not an exception: " + err.Error() + ">"
	}
	reason := exc.Reason()
	switch {
	case reason == ErrPortDoesNotSupportValueOutput:
		return "value"
	case strings.HasPrefix(reason.Error(), "failed to open file "):
		return "open"
	default:
		// RECORDED: os.ErrInvalid for a builtin writing bytes to a closed port.
		return "write"
	}
}

// Runs one case for real. Returns the observation, the number of open
// descriptors at the end, and a description of a violation of (b), (c) or (d)
// detected on the way ("" if none).
func verifC42Run(base string, form string, pre bool, useTry bool) (obs verifC42Obs, nfds int, problem string) {
	dir, err := os.MkdirTemp(base, "case")
	if err != nil {
		panic(err)
	}
	defer os.RemoveAll(dir)
	f1, f2, fo, stdinPath := filepath.Join(dir, "F1"), filepath.Join(dir, "F2"), filepath.Join(dir, "FO"), filepath.Join(dir, "STDIN")
	must := func(err error) {
		if err != nil {
			panic(err)
		}
	}
	if pre {
		must(os.WriteFile(f1, []byte(verifC42Old1), 0644))
		must(os.WriteFile(f2, []byte(verifC42Old2), 0644))
	}
	must(os.WriteFile(stdinPath, []byte(verifC42Stdin), 0644))
	stdin, err := os.Open(stdinPath)
	must(err)
	fobj, err := os.OpenFile(fo, os.O_WRONLY|os.O_CREATE|os.O_TRUNC, 0644)
	must(err)
	outPort, getOut, err := CapturePort()
	must(err)
	errPort, getErr, err := CapturePort()
	must(err)
	ports := []*Port{{File: stdin, Chan: ClosedChan}, outPort, errPort}

	form = strings.ReplaceAll(form, "F1", parse.Quote(f1))
	form = strings.ReplaceAll(form, "F2", parse.Quote(f2))

	ev := NewEvaler()
	ev.ExtendGlobal(BuildNs().AddVar("fobj", vars.NewReadOnly(fobj)))
	note := func(s string) {
		if problem == "" {
			problem = s
		}
	}

	func() {
		defer func() {
			if r := recover(); r != nil {
				note(fmt.Sprintf("(d) panic: %v", r))
			}
		}()
		var formErr, againErr error
		if useTry {
			code := "var exc = $nil\ntry { " + form + " } catch e { set exc = $e }\necho again > $fobj"
			againErr = ev.Eval(parse.Source{Name: "[c42]", Code: code}, EvalCfg{Ports: ports})
			if v, ok := ev.Global().Index("exc"); ok && v != nil {
				if exc, ok := v.(Exception); ok {
					formErr = exc
				} else {
					note(fmt.Sprintf("harness: $exc is %T", v))
				}
			}
		} else {
			formErr = ev.Eval(parse.Source{Name: "[c42]", Code: form}, EvalCfg{Ports: ports})
			againErr = ev.Eval(parse.Source{Name: "[c42]", Code: "echo again > $fobj"}, EvalCfg{Ports: ports})
		}
		obs.exc = verifC42Classify(formErr)
		if againErr != nil {
			note(fmt.Sprintf("(b) `echo again > $fobj` after the form failed: %v", againErr))
		}
	}()

	// (c) descriptors, before the harness closes its own files.
	if targets, ok := verifC42Fds(); ok {
		nFO, nStdin := 0, 0
		for _, target := range targets {
			switch target {
			case f1, f2, f1 + " (deleted)", f2 + " (deleted)":
				note(fmt.Sprintf("(c) a descriptor for %s is still open after the evaluation", filepath.Base(strings.TrimSuffix(target, " (deleted)"))))
			case fo:
				nFO++
			case stdinPath:
				nStdin++
			}
		}
		if nFO != 1 || nStdin != 1 {
			note(fmt.Sprintf("(b)/(c) after the evaluation %d descriptors refer to the file behind $fobj and %d to the stdin file, want 1 and 1", nFO, nStdin))
		}
	}

	// (b) the supplied files are still open.
	if _, err := fobj.WriteString("go\n"); err != nil {
		note(fmt.Sprintf("(b) the file behind $fobj was closed: %v", err))
	}
	if _, err := outPort.File.WriteString("after-out\n"); err != nil {
		note(fmt.Sprintf("(b) the supplied stdout file was closed: %v", err))
	}
	if _, err := errPort.File.WriteString("after-err\n"); err != nil {
		note(fmt.Sprintf("(b) the supplied stderr file was closed: %v", err))
	}
	if _, err := stdin.Seek(0, 1); err != nil {
		note(fmt.Sprintf("(b) the supplied stdin file was closed: %v", err))
	}

	outV, outB := getOut()
	errV, errB := getErr()
	fobj.Close()
	stdin.Close()
	for _, v := range outV {
		obs.outV = append(obs.outV, vals.ToString(v))
	}
	for _, v := range errV {
		obs.errV = append(obs.errV, vals.ToString(v))
	}
	obs.outB, obs.errB = string(outB), string(errB)
	obs.f1, obs.f2, obs.fo = verifC42ReadFile(f1), verifC42ReadFile(f2), verifC42ReadFile(fo)

	if targets, ok := verifC42Fds(); ok {
		nfds = len(targets)
	} else {
		nfds = -1
	}
	return obs, nfds, problem
}

func verifC42Diff(got, want verifC42Obs) string {
	var diffs []string
	cmp := func(what, g, w string) {
		if g != w {
			diffs = append(diffs, fmt.Sprintf("%s = %q, model says %q", what, g, w))
		}
	}
	cmp("exception class of the form", got.exc, want.exc)
	cmp("content of F1", got.f1, want.f1)
	cmp("content of F2", got.f2, want.f2)
	cmp("content of the file behind $fobj", got.fo, want.fo)
	cmp("stdout bytes", got.outB, want.outB)
	cmp("stderr bytes", got.errB, want.errB)
	cmp("stdout values", strings.Join(got.outV, ","), strings.Join(want.outV, ","))
	cmp("stderr values", strings.Join(got.errV, ","), strings.Join(want.errV, ","))
	return strings.Join(diffs, "\n    ")
}

// Pipelines in which a form redirects the pipe it was given. No exception is
// expected in any of them.
var verifC42Pipelines = []struct {
	code string
	f1   string
	outB string
	outV []string
}{
	// the reading end is replaced by a file / closed / replaced by another port
	{"echo a | print (slurp) < F1", verifC42Old1, verifC42Old1, nil},
	{"echo a | put x 0>&-", verifC42Old1, "", []string{"x"}},
	{"put a | nop 0>&1", verifC42Old1, "", nil},
	{"range 200 | put x < F1", verifC42Old1, "", []string{"x"}},
	{"echo a | print (slurp) 0<> F1", verifC42Old1, verifC42Old1, nil},
	// the writing end is shared through n>&m and then replaced
	{"{ put x >&3 } 3>&1 > F1 | each {|v| put got-$v }", "", "", []string{"got-x"}},
	{"{ echo b >&3 } 3>&1 > F1 | print (slurp)", "", "b\n", nil},
	{"{ echo b >&3; echo c } 3>&1 > F1 | print (slurp)", "c\n", "b\n", nil},
	// the writing end is replaced without having been shared: downstream sees end of input
	{"echo b > F1 | print '['(slurp)']'", "b\n", "[]", nil},
}

func TestVerifBoundedC42(t *testing.T) {
	thorough := os.Getenv("VERIF_TIER") == "thorough"
	skipKnown := os.Getenv("VERIF_SKIP_KNOWN") == "1"

	if _, ok := verifC42Fds(); !ok {
		t.Logf("/proc/self/fd is not available: check (c) is NOT performed")
	}
	// A leaked file would be closed by its finalizer when the garbage collector
	// runs; collect only at known points so that (c) is deterministic.
	defer debug.SetGCPercent(debug.SetGCPercent(-1))

	base := t.TempDir()
	// Warm up (lazily opened runtime descriptors, e.g. the poller).
	verifC42Run(base, "echo x > F1", true, true)
	verifC42Run(base, "echo x > F1", true, false)

	cases, skipped, withExc := 0, 0, 0
	enumerate := func(nRedirs int, cmds []verifC42Cmd, pres []bool, tries []bool) {
		idx := make([]int, nRedirs)
		for {
			redirs := make([]verifC42Redir, nRedirs)
			var rtexts []string
			for i, k := range idx {
				redirs[i] = verifC42Redirs[k]
				if redirs[i].text != "" {
					rtexts = append(rtexts, redirs[i].text)
				}
			}
			for _, cmd := range cmds {
				form := strings.TrimSpace(cmd.text + " " + strings.Join(rtexts, " "))
				for _, pre := range pres {
					want := verifC42Model(cmd, redirs, pre)
					if want.usedDanglingFD && skipKnown {
						skipped += len(tries)
						continue
					}
					for _, useTry := range tries {
						cases++
						runtime.GC()
						how := "plain (two Evals on one Evaler)"
						if useTry {
							how = "inside try, one Eval"
						}
						desc := fmt.Sprintf("form `%s`, F1/F2 pre-exist=%v, run %s", form, pre, how)
						got1, n1, problem1 := verifC42Run(base, form, pre, useTry)
						if problem1 != "" {
							t.Fatalf("C42 violated for %s:\n    %s", desc, problem1)
						}
						if d := verifC42Diff(got1, want); d != "" {
							extra := ""
							if want.usedDanglingFD {
								extra = "\n  (known finding \"dangling dup\": a port duplicated from a file redirection is closed when the original port is redirected again; VERIF_SKIP_KNOWN=1 skips this class)"
							}
							t.Fatalf("C42 violated for %s:\n    %s%s", desc, d, extra)
						}
						// (c) again: the same script a second time must not change
						// the number of open descriptors.
						got2, n2, problem2 := verifC42Run(base, form, pre, useTry)
						if problem2 != "" {
							t.Fatalf("C42 violated for %s (second run):\n    %s", desc, problem2)
						}
						if d := verifC42Diff(got2, want); d != "" {
							t.Fatalf("C42 violated for %s (second run, not deterministic?):\n    %s", desc, d)
						}
						if n1 != n2 {
							t.Fatalf("C42 violated for %s: (c) %d descriptors open after the first evaluation, %d after the second (leak)", desc, n1, n2)
						}
						if want.exc != "" {
							withExc++
						}
					}
				}
			}

			i := nRedirs - 1
			for i >= 0 {
				idx[i]++
				if idx[i] < len(verifC42Redirs) {
					break
				}
				idx[i] = 0
				i--
			}
			if i < 0 {
				break
			}
		}
	}
	both := []bool{true, false}
	if thorough {
		// R1 R2 R3 includes R1 R2 (Ri may be empty).
		enumerate(3, verifC42Cmds, both, []bool{false, true})
	} else {
		enumerate(2, verifC42Cmds, both, []bool{false, true})
		// Three redirections, restricted to the one command that makes port 2
		// observable, pre-existing files, run inside try. (Lists with an empty
		// Ri are repeated from above.)
		enumerate(3, verifC42Cmds[4:5], []bool{true}, []bool{true})
	}
	// Forms inside pipelines whose pipe ends are redirected again. The expected
	// observations are written out by hand from the same rules (the port a
	// redirection replaces stops being used by the form; a port shared through
	// n>&m stays usable; nothing crashes or hangs).
	for _, pc := range verifC42Pipelines {
		for _, useTry := range []bool{false, true} {
			cases++
			runtime.GC()
			desc := fmt.Sprintf("pipeline `%s`, F1/F2 pre-exist, try=%v", pc.code, useTry)
			type res struct {
				obs     verifC42Obs
				problem string
			}
			done := make(chan res, 1)
			go func() {
				obs, _, problem := verifC42Run(base, pc.code, true, useTry)
				done <- res{obs, problem}
			}()
			select {
			case r := <-done:
				if r.problem != "" {
					t.Fatalf("C42 violated for %s:\n    %s", desc, r.problem)
				}
				want := verifC42Obs{f1: pc.f1, f2: verifC42Old2, fo: "again\ngo\n",
					outB: pc.outB + "after-out\n", errB: "after-err\n", outV: pc.outV}
				if d := verifC42Diff(r.obs, want); d != "" {
					t.Fatalf("C42 violated for %s:\n    %s", desc, d)
				}
			case <-time.After(20 * time.Second):
				t.Fatalf("C42 violated for %s: the pipeline did not finish within 20 s", desc)
			}
		}
	}

	t.Logf("%d commands, %d redirections in the pool, thorough=%v; %d cases expect an exception; %d cases skipped as known finding (VERIF_SKIP_KNOWN=%v)",
		len(verifC42Cmds), len(verifC42Redirs), thorough, withExc, skipped, skipKnown)
	fmt.Printf("BOUNDED name=c42_redir cases=%d\n", cases)
}
