package vector

// Bounded exhaustive harness for property C06: the persistent vector behaves
// like an immutable array at every length.
//
// For every length n in [0, N] the vector built by n Conj calls is compared
// with a trivial reference model (c06Model: "element k is off+k unless
// overridden"). Nothing is sampled at random; every selection below is a fixed
// function of n.
//
//   VERIF_TIER=thorough  N = 33900   (crosses 32768+32: tree height 1 -> 2)
//   otherwise            N = 1100    (crosses 32 and 1024+32: height 0 -> 1)
//
// What is checked at every n                       (O(n) work):
//   - Len, Index(i) for all i in [-1, n+1], Iterator order and termination
//   - Assoc(-1), Assoc(n+1), Assoc(n+2) == nil
//   - Assoc(i, x) for a fixed selection of i: only position i changes
//   - Assoc(n, x) and Conj(x) append
//   - Pop() has length n-1 and the same prefix (nil when n == 0)
//   - SubVector(i, j) for a fixed selection of (i, j) (all four boundary
//     combinations, tail/tree boundary, invalid ones) behaves like slicing,
//     and so do its own Assoc/Conj/Pop/SubVector results (c06Exercise)
//   - after all that the original vector is unchanged
// What is checked for n <= 70 and n within 2 of 32, 33, 1056, 1057, 32800,
// 32801                                            (O(n^2) work):
//   - Assoc(i, x) for ALL i, each result compared element by element (for
//     n > 1100 the full iterator pass only for every 31st i and the last 70)
//   - SubVector(i, j) for ALL (i, j) in [-1, n+1]^2 (element by element plus
//     the nested operations when n <= 70; nil-ness, Len, out-of-range and the
//     first/middle/last element otherwise). Exception, to stay inside the time
//     budget: of the six lengths around 32800 only 32800 and 32801 get all
//     5.4*10^8 pairs; 32798, 32799, 32802, 32803 get every i against ten fixed
//     j and every j against ten fixed i.
//   - SubVector(i, min(n, i+40)) for ALL i, element by element and iterated
//     (at the other n > 70: every 29th i, rotating with n)
// At the end a sample of the retained versions (and of vectors derived from
// them) is compared with its recorded model again.
//
// "deep" comparison = Len, out-of-range indices, every index and a full
// iterator pass; "light" comparison (used for most derived vectors when
// n > 1100 to keep the run time bounded; a rotating selection of them is still
// compared deeply at every n) = Len, out-of-range indices, a fixed set of
// positions around chunk boundaries and the first 70 iterator elements.
//
// cases = number of operation results compared with the model (one per
// vector-vs-model comparison or expected-nil result).
//
// KNOWN DISAGREEMENT on the pinned tree: subVector.SubVector(i, j) checks its
// arguments against the underlying vector instead of its own length, so e.g.
// [0].SubVector(0,0).SubVector(0,1) and [0 1 2].SubVector(1,2).SubVector(0,2)
// are non-nil (and SubVector(1,3).SubVector(-1,1) accepts a negative begin).
// This harness fails on it at n=1; with that one method fixed it passes in
// both tiers.

import (
	"fmt"
	"os"
	"testing"
)

type c06Ov struct{ idx, val int }

// c06Model is the reference: an immutable array of n ints whose k-th element
// is off+k unless the newest override for k says otherwise.
type c06Model struct {
	n, off int
	ovs    []c06Ov
}

func (m c06Model) at(k int) int {
	for i := len(m.ovs) - 1; i >= 0; i-- {
		if m.ovs[i].idx == k {
			return m.ovs[i].val
		}
	}
	return m.off + k
}

// assoc requires 0 <= i <= n.
func (m c06Model) assoc(i, x int) c06Model {
	ovs := make([]c06Ov, 0, len(m.ovs)+1)
	ovs = append(ovs, m.ovs...)
	ovs = append(ovs, c06Ov{i, x})
	n := m.n
	if i == n {
		n++
	}
	return c06Model{n, m.off, ovs}
}

// pop requires n > 0.
func (m c06Model) pop() c06Model {
	var ovs []c06Ov
	for _, o := range m.ovs {
		if o.idx < m.n-1 {
			ovs = append(ovs, o)
		}
	}
	return c06Model{m.n - 1, m.off, ovs}
}

// sub requires 0 <= i <= j <= n.
func (m c06Model) sub(i, j int) c06Model {
	var ovs []c06Ov
	for _, o := range m.ovs {
		if i <= o.idx && o.idx < j {
			ovs = append(ovs, c06Ov{o.idx - i, o.val})
		}
	}
	return c06Model{j - i, m.off + i, ovs}
}

func (m c06Model) String() string {
	return fmt.Sprintf("model{len=%d off=%d overrides=%v}", m.n, m.off, m.ovs)
}

// c06Ctx describes the operation under check; it is only formatted on failure.
type c06Ctx struct {
	n    int    // length of the top-level vector
	op   string // operation path, with %d verbs for the args
	args [8]int
	na   int
}

func (c c06Ctx) with(op string, args ...int) c06Ctx {
	c.op += op
	for _, a := range args {
		c.args[c.na] = a
		c.na++
	}
	return c
}

func (c *c06Ctx) String() string {
	a := make([]any, c.na)
	for i := range a {
		a[i] = c.args[i]
	}
	return fmt.Sprintf("n=%d: v%s", c.n, fmt.Sprintf(c.op, a...))
}

type c06H struct {
	t     *testing.T
	cases int64
}

func (h *c06H) isNil(c c06Ctx, v Vector) {
	h.cases++
	if v != nil {
		h.t.Fatalf("C06 %v: want nil, got a vector of length %d", &c, v.Len())
	}
}

func (h *c06H) idxOut(c *c06Ctx, v Vector, i int) {
	if val, ok := v.Index(i); ok || val != nil {
		h.t.Fatalf("C06 %v: Index(%d) = (%v, %v), want (nil, false)", c, i, val, ok)
	}
}

func (h *c06H) idxIn(c *c06Ctx, v Vector, i, want int) {
	val, ok := v.Index(i)
	if got, isInt := val.(int); !ok || !isInt || got != want {
		h.t.Fatalf("C06 %v: Index(%d) = (%v, %v), want (%d, true)", c, i, val, ok, want)
	}
}

// head checks nil-ness, Len and the out-of-range indices.
func (h *c06H) head(c *c06Ctx, v Vector, m c06Model) {
	h.cases++
	if v == nil {
		h.t.Fatalf("C06 %v: got nil, want %v", c, m)
	}
	if v.Len() != m.n {
		h.t.Fatalf("C06 %v: Len() = %d, want %d", c, v.Len(), m.n)
	}
	h.idxOut(c, v, -1)
	h.idxOut(c, v, m.n)
	h.idxOut(c, v, m.n+1)
}

// Comparison modes, see the file comment.
const (
	c06Light = iota // fixed positions, first 70 iterator elements
	c06Index        // every index, first 70 iterator elements
	c06Deep         // every index, full iterator pass
)

func c06Mode(deep bool) int {
	if deep {
		return c06Deep
	}
	return c06Light
}

// eq compares a vector with its model.
func (h *c06H) eq(ctx c06Ctx, v Vector, m c06Model, mode int) {
	c := &ctx
	h.head(c, v, m)
	if mode >= c06Index {
		if len(m.ovs) == 0 {
			for k := 0; k < m.n; k++ {
				h.idxIn(c, v, k, m.off+k)
			}
		} else {
			for k := 0; k < m.n; k++ {
				h.idxIn(c, v, k, m.at(k))
			}
		}
	} else {
		n := m.n
		spots := [...]int{0, 1, 2, 30, 31, 32, 33, 34, n/2 - 1, n / 2, n/2 + 1,
			n - 66, n - 65, n - 64, n - 63, n - 35, n - 34, n - 33, n - 32, n - 31, n - 30,
			n - 3, n - 2, n - 1}
		for _, k := range spots {
			if 0 <= k && k < n {
				h.idxIn(c, v, k, m.at(k))
			}
		}
	}
	limit := m.n
	if mode < c06Deep && limit > 70 {
		limit = 70
	}
	k := 0
	it := v.Iterator()
	for ; it.HasElem() && k < limit; it.Next() {
		e := it.Elem()
		if got, isInt := e.(int); !isInt || got != m.at(k) {
			h.t.Fatalf("C06 %v: iterator element #%d = %v, want %d", c, k, e, m.at(k))
		}
		k++
	}
	if k != limit {
		h.t.Fatalf("C06 %v: iterator stopped after %d elements, want %d", c, k, m.n)
	}
	if limit == m.n && it.HasElem() {
		h.t.Fatalf("C06 %v: iterator still has elements after %d", c, m.n)
	}
}

// subEnds is the cheapest comparison, used for ALL (i, j) at large n: the
// result of v.SubVector(i, j) has the right nil-ness, Len, out-of-range
// behaviour and first, middle and last element. base must have no overrides.
func (h *c06H) subEnds(n int, v Vector, base c06Model, i, j int) {
	s := v.SubVector(i, j)
	h.cases++
	bad := ""
	if i < 0 || i > j || j > n {
		if s == nil {
			return
		}
		bad = "want nil"
	} else if s == nil {
		bad = "got nil"
	} else if L := j - i; s.Len() != L {
		bad = "wrong Len"
	} else {
		if _, ok := s.Index(-1); ok {
			bad = "Index(-1) ok"
		}
		if _, ok := s.Index(L); ok {
			bad = "Index(Len) ok"
		}
		for _, k := range [...]int{0, L / 2, L - 1} {
			if L > 0 {
				if e, ok := s.Index(k); !ok || e != any(base.off+i+k) { // base has no overrides
					bad = fmt.Sprintf("Index(%d) = (%v, %v), want (%d, true)", k, e, ok, base.off+i+k)
				}
			}
		}
	}
	if bad != "" {
		h.t.Fatalf("C06 n=%d: v.SubVector(%d,%d): %s", n, i, j, bad)
	}
}

// c06X is the replacement value used for position i; negative, so it never
// collides with an original element, and position-dependent.
func c06X(i int) int { return -1 - i }

func c06Dedupe(xs []int, lo, hi int) []int {
	var out []int
	for _, x := range xs {
		if x < lo || x > hi {
			continue
		}
		dup := false
		for _, y := range out {
			if y == x {
				dup = true
			}
		}
		if !dup {
			out = append(out, x)
		}
	}
	return out
}

// c06SubPairs is the fixed selection of SubVector arguments for a vector of
// length n: every ordered pair (also the invalid i > j ones) of a few
// interesting points, plus out-of-range arguments.
func c06SubPairs(n int, pts []int) [][2]int {
	var ps [][2]int
	for _, i := range pts {
		for _, j := range pts {
			ps = append(ps, [2]int{i, j})
		}
	}
	ps = append(ps, [2]int{-1, 0}, [2]int{-1, n}, [2]int{-1, -1}, [2]int{0, n + 1},
		[2]int{n, n + 1}, [2]int{n + 1, n + 1}, [2]int{1, 0}, [2]int{n, n - 1}, [2]int{n + 1, n})
	return ps
}

// c06Exercise checks that v equals m, then applies every operation to v,
// checks each result against the model's result, recurses into the results
// depth-1 more times, and finally checks that v is still equal to m.
func (h *c06H) c06Exercise(c c06Ctx, v Vector, m c06Model, depth int, deep bool) {
	h.eq(c, v, m, c06Mode(deep))
	if depth == 0 {
		return
	}
	L := m.n
	sub := func(c2 c06Ctx, r Vector, rm c06Model) {
		h.c06Exercise(c2, r, rm, depth-1, deep)
	}
	// Assoc
	h.isNil(c.with(".Assoc(%d)", -1), v.Assoc(-1, 7))
	h.isNil(c.with(".Assoc(%d)", L+1), v.Assoc(L+1, 7))
	for _, k := range c06Dedupe([]int{0, L / 2, L - 1, L}, 0, L) {
		x := c06X(k) - 1000
		sub(c.with(".Assoc(%d)", k), v.Assoc(k, x), m.assoc(k, x))
	}
	// Conj
	sub(c.with(".Conj()"), v.Conj(-777), m.assoc(L, -777))
	// Pop
	if L == 0 {
		h.isNil(c.with(".Pop()"), v.Pop())
	} else {
		sub(c.with(".Pop()"), v.Pop(), m.pop())
	}
	// SubVector: bounds are those of v itself, not of any underlying vector.
	for _, p := range c06SubPairs(L, c06Dedupe([]int{0, 1, L / 2, L - 1, L}, 0, L)) {
		c2 := c.with(".SubVector(%d,%d)", p[0], p[1])
		s := v.SubVector(p[0], p[1])
		if p[0] < 0 || p[0] > p[1] || p[1] > L {
			h.isNil(c2, s)
		} else {
			sub(c2, s, m.sub(p[0], p[1]))
		}
	}
	h.eq(c.with(" (after operations)"), v, m, c06Mode(deep))
}

func c06NearBoundary(n int) bool {
	for _, b := range [...]int{32, 33, 1024 + 32, 1024 + 33, 32768 + 32, 32768 + 33} {
		if b-2 <= n && n <= b+2 {
			return true
		}
	}
	return false
}

type c06Kept struct {
	c c06Ctx
	v Vector
	m c06Model
}

func TestVerifBoundedC06(t *testing.T) {
	N := 1100
	if os.Getenv("VERIF_TIER") == "thorough" {
		N = 33900
	}
	const deepMax = 1100 // derived vectors are compared element by element up to this n
	h := &c06H{t: t}

	versions := make([]Vector, 0, N+1)
	var kept []c06Kept
	keep := func(n int) bool { return n <= 70 || c06NearBoundary(n) || n%97 == 0 || n == N }

	// The zero value is documented to be a valid empty vector too.
	h.c06Exercise(c06Ctx{n: 0, op: "(zero value)"}, &vector{}, c06Model{}, 2, true)

	v := Empty
	for n := 0; n <= N; n++ {
		if n > 0 {
			v = v.Conj(n - 1)
		}
		versions = append(versions, v)
		base := c06Model{n: n}
		c := c06Ctx{n: n}
		full := n <= 70 || c06NearBoundary(n)
		deep := n <= deepMax
		ts := 0 // first index stored in the tail
		if n >= 32 {
			ts = ((n - 1) >> 5) << 5
		}

		h.eq(c, v, base, c06Deep)

		// ---- Assoc
		h.isNil(c.with(".Assoc(%d)", -1), v.Assoc(-1, 7))
		h.isNil(c.with(".Assoc(%d)", n+1), v.Assoc(n+1, 7))
		h.isNil(c.with(".Assoc(%d)", n+2), v.Assoc(n+2, 7))
		if full {
			for i := 0; i < n; i++ {
				// At large n the full iterator pass is made for every 31st i
				// only (31 is coprime to the chunk size); every index is
				// still read for every i.
				mode := c06Deep
				if n > deepMax && i%31 != 0 && i < n-70 {
					mode = c06Index
				}
				h.eq(c.with(".Assoc(%d)", i), v.Assoc(i, c06X(i)), base.assoc(i, c06X(i)), mode)
			}
		} else {
			sel := c06Dedupe([]int{0, 1, 31, 32, 33, n / 2, ts - 33, ts - 32, ts - 1, ts, ts + 1,
				1023, 1024, 1055, 1056, n - 2, n - 1}, 0, n-1)
			for idx, i := range sel {
				// One position per n (rotating) is always compared in full.
				d := deep || idx == n%len(sel)
				h.eq(c.with(".Assoc(%d)", i), v.Assoc(i, c06X(i)), base.assoc(i, c06X(i)), c06Mode(d))
			}
		}
		appended := v.Assoc(n, c06X(n))
		h.eq(c.with(".Assoc(%d)", n), appended, base.assoc(n, c06X(n)), c06Deep)
		h.eq(c.with(".Conj()"), v.Conj(c06X(n)), base.assoc(n, c06X(n)), c06Mode(deep))

		// ---- Pop
		var popped Vector
		if n == 0 {
			h.isNil(c.with(".Pop()"), v.Pop())
		} else {
			popped = v.Pop()
			h.eq(c.with(".Pop()"), popped, base.pop(), c06Deep)
		}

		// ---- SubVector
		if n <= 70 {
			for i := -1; i <= n+1; i++ {
				for j := -1; j <= n+1; j++ {
					c2 := c.with(".SubVector(%d,%d)", i, j)
					s := v.SubVector(i, j)
					if i < 0 || i > j || j > n {
						h.isNil(c2, s)
					} else {
						h.c06Exercise(c2, s, base.sub(i, j), 1, true)
					}
				}
			}
		} else if full {
			if n < 2000 || n == 32768+32 || n == 32768+33 {
				for i := -1; i <= n+1; i++ {
					for j := -1; j <= n+1; j++ {
						h.subEnds(n, v, base, i, j)
					}
				}
			} else {
				// 32798, 32799, 32802, 32803: 5*10^8 pairs each would take too
				// long; every i against a few j and every j against a few i.
				for k := -1; k <= n+1; k++ {
					for _, q := range [...]int{-1, 0, 1, 32, n / 2, ts - 1, ts, n - 1, n, n + 1} {
						h.subEnds(n, v, base, k, q)
						h.subEnds(n, v, base, q, k)
					}
				}
			}
			// A window starting at EVERY position (iterator set-up at every
			// begin, crossing at least one chunk boundary).
			for i := 0; i <= n; i++ {
				j := min(n, i+40)
				h.eq(c.with(".SubVector(%d,%d)", i, j), v.SubVector(i, j), base.sub(i, j), c06Deep)
			}
		} else {
			// The same windows, for every 29th start (rotating with n).
			for i := n % 29; i <= n; i += 29 {
				j := min(n, i+33)
				h.eq(c.with(".SubVector(%d,%d)", i, j), v.SubVector(i, j), base.sub(i, j), c06Deep)
			}
		}
		depth := 1
		if n <= 100 {
			depth = 2
		}
		pairs := c06SubPairs(n, c06Dedupe([]int{0, 1, 32, n / 2, ts - 1, ts, n - 1, n}, 0, n))
		for idx, p := range pairs {
			c2 := c.with(".SubVector(%d,%d)", p[0], p[1])
			s := v.SubVector(p[0], p[1])
			if p[0] < 0 || p[0] > p[1] || p[1] > n {
				h.isNil(c2, s)
				continue
			}
			sm := base.sub(p[0], p[1])
			if deep {
				h.c06Exercise(c2, s, sm, depth, true)
			} else {
				// Large n: every selected pair is compared lightly, a rotating
				// third of them also has its own operations exercised, and two
				// (rotating) are compared in full.
				h.eq(c2, s, sm, c06Light)
				if idx%3 == n%3 {
					h.c06Exercise(c2, s, sm, 1, false)
				}
				if idx == n%len(pairs) || idx == (n+len(pairs)/2)%len(pairs) {
					h.eq(c2, s, sm, c06Deep)
				}
			}
			if keep(n) && idx%7 == 0 {
				kept = append(kept, c06Kept{c2, s, sm})
			}
		}

		// ---- the original is unchanged
		h.eq(c.with(" (after operations)"), v, base, c06Deep)

		if keep(n) {
			kept = append(kept, c06Kept{c.with(".Assoc(%d)", n), appended, base.assoc(n, c06X(n))})
			if popped != nil {
				kept = append(kept, c06Kept{c.with(".Pop()"), popped, base.pop()})
			}
			if n > 0 {
				i := (n * 7 / 11) % n
				kept = append(kept, c06Kept{c.with(".Assoc(%d)", i), v.Assoc(i, c06X(i)), base.assoc(i, c06X(i))})
			}
		}
	}

	// ---- immutability: earlier versions and vectors derived from them are
	// still what they were.
	for n, old := range versions {
		if keep(n) || n%13 == 0 {
			h.eq(c06Ctx{n: n, op: " (re-check at end)"}, old, c06Model{n: n}, c06Deep)
		} else {
			h.eq(c06Ctx{n: n, op: " (re-check at end)"}, old, c06Model{n: n}, c06Light)
		}
	}
	for _, k := range kept {
		h.eq(k.c.with(" (re-check at end)"), k.v, k.m, c06Deep)
	}

	fmt.Printf("BOUNDED name=c06_vector cases=%d\n", h.cases)
}
