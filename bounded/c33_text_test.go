package ui

// Bounded exhaustive harness for property C33: "Styled text stays normalised
// and keeps its content".
//
// The doc comment of Text promises that a Text manipulated only through this
// package is in NORMAL FORM:
//
//	(1) an empty Text is nil (not a non-nil slice of length 0),
//	(2) no Segment has an empty Text field,
//	(3) no two adjacent Segments have the same Style.
//
// The harness enumerates ALL normal-form texts with at most maxSegs segments
// over the styles {plain, FgRed, Bold} and the segment strings of a fixed pool
// and applies every Text-producing operation of the package to them. Nothing
// is sampled at random. Every resulting Text (and every element of a resulting
// []Text) is checked for (1)-(3) and against the content law of the
// operation. The content law is checked on the "expansion" of a Text: the
// sequence of (style, byte) pairs, so that it covers both what the text says
// and how every byte is styled.
//
//	tier      pool                              maxSegs pairSegs tripleSegs
//	quick     "a" "b " "\n" "世"                 3       3        2
//	thorough  "a" "b " "\n" "世" "\u0301c"  4       3        2
//
// maxSegs bounds the texts used for unary operations, pairSegs the texts used
// in binary operations, tripleSegs the texts used in ternary operations
// (Concat of three, TextBuilder sequences).
//
// Operations and laws (t, u, v texts; s a *Segment from c33Segs = every style
// x (pool + ""); X the expansion):
//
//	T(str, stylings...)        X = every byte of str styled ApplyStyling(Style{}, stylings...)
//	TextFromSegment(s)         X = X(s)
//	StyleSegment(s, st)        Text kept, Style = ApplyStyling(s.Style, st)
//	t.Clone()                  X = X(t), no Segment shared with t
//	StyleText(t, st)           X = X(t) with every style mapped through ApplyStyling
//	t.Partition(i...)          len = n+1, pieces concatenate to X(t), piece k has i_k - i_{k-1} bytes
//	t.TrimWcwidth(w)           content = wcwidth.Trim(content(t), w), X is a prefix of X(t)
//	t.SplitByRune(r)           count(r)+1 pieces (nil for empty t), X of pieces = X(t) minus the r's
//	t.Index("i..j")            X = X(t[i:j])              (extra, not in the C33 list)
//	t.Concat(rhs)              X = X(t) + X(rhs), rhs: "", "x", 3, every s, every u
//	t.RConcat(lhs)             X = X(lhs) + X(t), lhs: "", "x", 3; *Segment and Text are not implemented
//	s.Concat(rhs)              X = X(s) + X(rhs), rhs: "", "x", 3, every s', every u
//	s.RConcat(lhs)             X = X(lhs) + X(s), lhs: "", "x", 3
//	Concat(), Concat(t), Concat(t, u), Concat(t, u, v)
//	TextBuilder                WriteText of 0..3 texts, Text() (twice), Reset, reuse
//
// At the end every enumerated text is compared with its recorded expansion
// again (no operation may modify its operands).
//
// cases = number of operation results checked.
//
// VERIF_C33_SURVEY=1 collects all violations instead of stopping at the first
// one and reports, per operation / operand kind / kind of violation, the number
// of occurrences and the first example.
//
// The harness is STRICT by default. VERIF_SKIP_KNOWN=1 skips exactly the
// following classes, all of which fail on the pinned tree (b2f53a3). Only the
// normal-form conditions named are waived, and only for the operands named;
// the content law is still checked for them unless stated otherwise.
//
//	K-a  t.TrimWcwidth(w) when the loop of TrimWcwidth stops at a segment of
//	     which not even the first rune fits in the remaining width: w == 0 and
//	     t is non-empty and does not start with a zero-width rune (e.g.
//	     [plain:"a"].TrimWcwidth(0)), or exactly one column remains when a
//	     segment starting with a double-width rune is reached (e.g.
//	     [plain:"a" red:"世"].TrimWcwidth(2)). The result ends in a Segment with
//	     empty Text; (2) waived (when that is the only segment this is also
//	     the "empty Text that is not nil" case).
//	K-b  StyleText(t, st) when two adjacent segments of t have the same style
//	     after st: they are not merged; (3) waived.
//	K-c  s.Concat(rhs) / s.RConcat(lhs) on a *Segment s, which build
//	     Text{s, operand...} literally:
//	     (2) waived when s.Text == "" (any operand, including an empty Text:
//	     (plain:"").Concat(Text nil) = [plain:""]), or when the operand is the
//	     string "" or a *Segment with empty Text;
//	     (3) waived when s.Style equals the style of the neighbouring segment
//	     of the operand: plain for strings and numbers, the operand's own
//	     style for a *Segment, the style of the first segment for a non-empty
//	     Text.
//	K-d  t.TrimWcwidth(w) when w is exactly the width of a proper prefix t[:k]
//	     and t[k] starts with a zero-width rune ("\n", U+0301): the zero-width
//	     runes following the cut are dropped although they fit, so the result
//	     is not the largest prefix and differs from wcwidth.Trim(content, w)
//	     (within one segment they are kept). Content equality waived; the
//	     prefix law is still checked.
//	K-e  t.Concat(s) with t non-empty, s.Text == "" and s.Style different from
//	     the style of t's last segment: the result ends in a Segment with
//	     empty Text; (2) waived.
//	K-f  StyleText(t, st) and t.Clone() with len(t) == 0: the result is a
//	     non-nil Text of length 0; (1) waived.
//	K-g  t.Index("i..i"): the result is a non-nil Text of length 0; (1) waived.

import (
	"fmt"
	"os"
	"strings"
	"testing"
	"unicode/utf8"

	"src.elv.sh/pkg/eval/vals"
	"src.elv.sh/pkg/wcwidth"
)

const (
	c33NonNilEmpty = 1 << iota // violates (1)
	c33EmptySeg                // violates (2)
	c33AdjEqual                // violates (3)
	c33NilSeg                  // nil *Segment, never acceptable
)

var c33Styles = []Style{{}, {Fg: Red}, {Bold: true}}

type c33Text struct {
	t       Text
	exp     string // expansion: (style key, byte) pairs
	content string
}

// c33Key maps the styles that can occur in this harness to one byte.
func c33Key(st Style) byte {
	switch st {
	case Style{}:
		return 'p'
	case Style{Fg: Red}:
		return 'r'
	case Style{Bold: true}:
		return 'b'
	case Style{Fg: Red, Bold: true}:
		return 'R'
	}
	return '?'
}

func c33ExpSeg(sb *strings.Builder, st Style, text string) {
	k := c33Key(st)
	for i := 0; i < len(text); i++ {
		sb.WriteByte(k)
		sb.WriteByte(text[i])
	}
}

func c33Exp(t Text) string {
	var sb strings.Builder
	for _, seg := range t {
		if seg != nil {
			c33ExpSeg(&sb, seg.Style, seg.Text)
		}
	}
	return sb.String()
}

func c33ExpStr(st Style, text string) string {
	var sb strings.Builder
	c33ExpSeg(&sb, st, text)
	return sb.String()
}

func c33Content(t Text) string {
	var sb strings.Builder
	for _, seg := range t {
		sb.WriteString(seg.Text)
	}
	return sb.String()
}

// c33NF returns the set of normal-form conditions violated by t.
func c33NF(t Text) int {
	bad := 0
	if t != nil && len(t) == 0 {
		bad |= c33NonNilEmpty
	}
	for i, seg := range t {
		if seg == nil {
			bad |= c33NilSeg
			continue
		}
		if seg.Text == "" {
			bad |= c33EmptySeg
		}
		if i > 0 && t[i-1] != nil && t[i-1].Style == seg.Style {
			bad |= c33AdjEqual
		}
	}
	return bad
}

func c33NFString(bad int) string {
	var parts []string
	if bad&c33NonNilEmpty != 0 {
		parts = append(parts, "(1) empty but not nil")
	}
	if bad&c33EmptySeg != 0 {
		parts = append(parts, "(2) segment with empty Text")
	}
	if bad&c33AdjEqual != 0 {
		parts = append(parts, "(3) adjacent segments with the same Style")
	}
	if bad&c33NilSeg != 0 {
		parts = append(parts, "nil segment")
	}
	return strings.Join(parts, ", ")
}

func c33ShowSeg(seg *Segment) string {
	if seg == nil {
		return "<nil segment>"
	}
	name := map[byte]string{'p': "plain", 'r': "red", 'b': "bold", 'R': "red+bold", '?': "?"}[c33Key(seg.Style)]
	if name == "?" {
		name = fmt.Sprintf("%+v", seg.Style)
	}
	return fmt.Sprintf("%s:%q", name, seg.Text)
}

func c33Show(t Text) string {
	if t == nil {
		return "nil"
	}
	if len(t) == 0 {
		return "Text{}(non-nil)"
	}
	parts := make([]string, len(t))
	for i, seg := range t {
		parts[i] = c33ShowSeg(seg)
	}
	return "[" + strings.Join(parts, " ") + "]"
}

func c33ShowTexts(ts []Text) string {
	if ts == nil {
		return "[]Text(nil)"
	}
	parts := make([]string, len(ts))
	for i, t := range ts {
		parts[i] = c33Show(t)
	}
	return "{" + strings.Join(parts, ", ") + "}"
}

func c33ShowAny(v any) string {
	switch v := v.(type) {
	case Text:
		return "Text " + c33Show(v)
	case *Segment:
		return "*Segment " + c33ShowSeg(v)
	case string:
		return fmt.Sprintf("string %q", v)
	case Styling:
		return c33StylingName(v)
	}
	return fmt.Sprintf("%T %v", v, v)
}

type c33Styling struct {
	name string
	st   Styling
}

var c33Stylings = []c33Styling{
	{"FgRed", FgRed},
	{"Bold", Bold},
	{"Reset", Reset},
	{"FgDefault", FgDefault},
	{"NoBold", NoBold},
	{"Stylings(FgRed,Bold)", Stylings(FgRed, Bold)},
	{"nil", nil},
}

func c33StylingName(st Styling) string {
	for _, s := range c33Stylings {
		if s.st == st {
			return s.name
		}
	}
	return fmt.Sprintf("%#v", st)
}

// c33Enumerate returns all normal-form texts with at most maxSegs segments, in
// order of increasing segment count. Every text gets its own Segments.
func c33Enumerate(pool []string, maxSegs int) (all []c33Text, countUpTo []int) {
	type proto struct {
		styles []int
		texts  []int
	}
	level := []proto{{}}
	for n := 0; ; n++ {
		for _, p := range level {
			var t Text // nil for n == 0
			for i := range p.styles {
				t = append(t, &Segment{c33Styles[p.styles[i]], pool[p.texts[i]]})
			}
			all = append(all, c33Text{t, c33Exp(t), c33Content(t)})
		}
		countUpTo = append(countUpTo, len(all))
		if n == maxSegs {
			return
		}
		var next []proto
		for _, p := range level {
			for si := range c33Styles {
				if n > 0 && p.styles[n-1] == si {
					continue
				}
				for ti := range pool {
					next = append(next, proto{
						append(append([]int(nil), p.styles...), si),
						append(append([]int(nil), p.texts...), ti)})
				}
			}
		}
		level = next
	}
}

func c33FirstRuneWidth(s string) int {
	r, _ := utf8.DecodeRuneInString(s)
	return wcwidth.OfRune(r)
}

func TestVerifBoundedC33(t *testing.T) {
	thorough := os.Getenv("VERIF_TIER") == "thorough"
	skipKnown := os.Getenv("VERIF_SKIP_KNOWN") == "1"

	pool := []string{"a", "b ", "\n", "世"}
	maxSegs, pairSegs, tripleSegs := 3, 3, 2
	if thorough {
		pool = append(pool, "\u0301c") // starts with a zero-width combining rune
		maxSegs = 4
	}

	texts, upTo := c33Enumerate(pool, maxSegs)
	pairTexts := texts[:upTo[pairSegs]]
	tripleTexts := texts[:upTo[tripleSegs]]

	// Sanity of the enumeration itself.
	seen := map[string]bool{}
	for _, x := range texts {
		if c33NF(x.t) != 0 || strings.Contains(x.exp, "?") {
			t.Fatalf("harness bug: enumerated text %s is not normal", c33Show(x.t))
		}
		key := c33Show(x.t)
		if seen[key] {
			t.Fatalf("harness bug: duplicate text %s", key)
		}
		seen[key] = true
	}
	wantTexts := 1
	for n, per := 1, 1; n <= maxSegs; n++ {
		if n == 1 {
			per = len(c33Styles) * len(pool)
		} else {
			per *= (len(c33Styles) - 1) * len(pool)
		}
		wantTexts += per
	}
	if len(texts) != wantTexts {
		t.Fatalf("harness bug: enumerated %d texts, want %d", len(texts), wantTexts)
	}

	// All segments, including ones with empty Text.
	var segs []*Segment
	for _, st := range c33Styles {
		for _, s := range append([]string{""}, pool...) {
			segs = append(segs, &Segment{st, s})
		}
	}
	segSnapshot := make([]Segment, len(segs))
	for i, s := range segs {
		segSnapshot[i] = *s
	}

	cases := 0

	// fail reports a violation. Normally the first one is fatal. With
	// VERIF_C33_SURVEY=1 all violations are collected instead, grouped by
	// operation, operand kind and kind of violation, and the first example and
	// the number of occurrences of every group are reported at the end.
	survey := os.Getenv("VERIF_C33_SURVEY") == "1"
	type group struct {
		count int
		first string
	}
	groups := map[string]*group{}
	var groupOrder []string
	fail := func(format string, args ...any) {
		t.Helper()
		if !survey {
			t.Fatalf(format, args...)
		}
		class := format
		for _, a := range args {
			if str, ok := a.(string); ok {
				switch {
				case strings.HasPrefix(str, "not in normal form"), strings.HasPrefix(str, "("):
					class += " | " + str
				case strings.HasPrefix(str, "wrong content"):
					class += " | wrong content/styles"
				case strings.HasPrefix(str, "string "), strings.HasPrefix(str, "*Segment "), strings.HasPrefix(str, "Text "):
					class += " | operand " + strings.Fields(str)[0]
				}
			}
		}
		g := groups[class]
		if g == nil {
			g = &group{first: fmt.Sprintf(format, args...)}
			groups[class] = g
			groupOrder = append(groupOrder, class)
		}
		g.count++
	}

	// check verifies normal form (minus the waived conditions) and the
	// expansion of one result. It returns "" or a description of the problem.
	check := func(got Text, wantExp string, waive int) string {
		cases++
		if !skipKnown {
			waive = 0
		}
		if bad := c33NF(got) &^ waive; bad != 0 {
			return "not in normal form: " + c33NFString(bad)
		}
		if exp := c33Exp(got); exp != wantExp {
			return fmt.Sprintf("wrong content/styles: expansion %q, want %q", exp, wantExp)
		}
		return ""
	}
	asText := func(v any, err error) (Text, string) {
		if err != nil {
			return nil, "unexpected error: " + err.Error()
		}
		txt, ok := v.(Text)
		if !ok {
			return nil, fmt.Sprintf("result has type %T, want Text", v)
		}
		return txt, ""
	}

	// ---- T ----
	stylingLists := [][]Styling{
		nil, {FgRed}, {Bold}, {FgRed, Bold}, {Reset}, {FgRed, FgDefault},
		{Bold, Reset}, {nil}, {Stylings(FgRed, Bold)},
	}
	for _, s := range append([]string{""}, pool...) {
		for _, sl := range stylingLists {
			got := T(s, sl...)
			want := c33ExpStr(ApplyStyling(Style{}, sl...), s)
			if msg := check(got, want, 0); msg != "" {
				fail("T(%q, %v): %s; result %s", s, sl, msg, c33Show(got))
			}
		}
	}

	// ---- TextFromSegment, StyleSegment ----
	for _, s := range segs {
		got := TextFromSegment(s)
		if msg := check(got, c33ExpStr(s.Style, s.Text), 0); msg != "" {
			fail("TextFromSegment(%s): %s; result %s", c33ShowSeg(s), msg, c33Show(got))
		}
		for _, st := range c33Stylings {
			cases++
			ns := StyleSegment(s, st.st)
			if ns == nil || ns == s || ns.Text != s.Text || ns.Style != ApplyStyling(s.Style, st.st) {
				fail("StyleSegment(%s, %s) = %s", c33ShowSeg(s), st.name, c33ShowSeg(ns))
			}
			got := TextFromSegment(ns)
			if msg := check(got, c33ExpStr(ns.Style, s.Text), 0); msg != "" {
				fail("TextFromSegment(StyleSegment(%s, %s)): %s; result %s",
					c33ShowSeg(s), st.name, msg, c33Show(got))
			}
		}
	}

	// ---- unary operations on every text ----
	for _, x := range texts {
		// Clone
		{
			got := x.t.Clone()
			waive := 0
			if len(x.t) == 0 {
				waive |= 0 // (repaired in /repo: no waiver)  K-f
			}
			if msg := check(got, x.exp, waive); msg != "" {
				fail("%s.Clone(): %s; result %s", c33Show(x.t), msg, c33Show(got))
			}
			for i := range got {
				if i < len(x.t) && got[i] == x.t[i] {
					fail("%s.Clone(): segment %d is shared with the original", c33Show(x.t), i)
				}
			}
		}

		// StyleText
		for _, st := range c33Stylings {
			got := StyleText(x.t, st.st)
			var sb strings.Builder
			waive := 0
			if len(x.t) == 0 {
				waive |= 0 // (repaired in /repo: no waiver)  K-f
			}
			for i, seg := range x.t {
				ns := ApplyStyling(seg.Style, st.st)
				c33ExpSeg(&sb, ns, seg.Text)
				if i > 0 && ns == ApplyStyling(x.t[i-1].Style, st.st) {
					waive |= c33AdjEqual // K-b
				}
			}
			if msg := check(got, sb.String(), waive); msg != "" {
				fail("StyleText(%s, %s): %s; result %s", c33Show(x.t), st.name, msg, c33Show(got))
			}
		}
		{
			got := StyleText(x.t)
			waive := 0
			if len(x.t) == 0 {
				waive |= 0 // (repaired in /repo: no waiver)  K-f
			}
			if msg := check(got, x.exp, waive); msg != "" {
				fail("StyleText(%s) (no stylings): %s; result %s", c33Show(x.t), msg, c33Show(got))
			}
		}

		// Partition
		n := len(x.content)
		checkPartition := func(indices ...int) {
			got := x.t.Partition(indices...)
			cases++
			if len(got) != len(indices)+1 {
				fail("%s.Partition(%v): %d pieces, want %d; result %s",
					c33Show(x.t), indices, len(got), len(indices)+1, c33ShowTexts(got))
			}
			var joined strings.Builder
			prev := 0
			for k, piece := range got {
				if bad := c33NF(piece); bad != 0 {
					fail("%s.Partition(%v): piece %d not in normal form: %s; result %s",
						c33Show(x.t), indices, k, c33NFString(bad), c33ShowTexts(got))
				}
				end := n
				if k < len(indices) {
					end = indices[k]
				}
				if l := len(c33Content(piece)); l != end-prev {
					fail("%s.Partition(%v): piece %d has %d bytes, want %d; result %s",
						c33Show(x.t), indices, k, l, end-prev, c33ShowTexts(got))
				}
				prev = end
				joined.WriteString(c33Exp(piece))
			}
			if joined.String() != x.exp {
				fail("%s.Partition(%v): pieces do not concatenate to the original; result %s",
					c33Show(x.t), indices, c33ShowTexts(got))
			}
		}
		checkPartition()
		for i := 0; i <= n; i++ {
			checkPartition(i)
			for j := i; j <= n; j++ {
				checkPartition(i, j)
			}
		}

		// TrimWcwidth
		width := wcwidth.Of(x.content)
		for w := 0; w <= width+1; w++ {
			got := x.t.TrimWcwidth(w)
			cases++
			// Classify the operands (K-a, K-d) by walking the segments.
			knownEmpty, knownZeroWidth := false, false
			rem := w
			for k, seg := range x.t {
				sw := wcwidth.Of(seg.Text)
				if sw >= rem {
					if c33FirstRuneWidth(seg.Text) > rem {
						knownEmpty = false // K-a
					}
					if sw == rem && k+1 < len(x.t) && c33FirstRuneWidth(x.t[k+1].Text) == 0 {
						knownZeroWidth = false // K-d
					}
					break
				}
				rem -= sw
			}
			bad := c33NF(got)
			if skipKnown && knownEmpty {
				bad &^= c33EmptySeg
			}
			if bad != 0 {
				fail("%s.TrimWcwidth(%d): not in normal form: %s; result %s",
					c33Show(x.t), w, c33NFString(bad), c33Show(got))
			}
			if exp := c33Exp(got); !strings.HasPrefix(x.exp, exp) {
				fail("%s.TrimWcwidth(%d): result %s is not a prefix of the original",
					c33Show(x.t), w, c33Show(got))
			}
			want := wcwidth.Trim(x.content, w)
			if c := c33Content(got); c != want && !(skipKnown && knownZeroWidth) {
				fail("%s.TrimWcwidth(%d): content %q, want wcwidth.Trim(%q, %d) = %q; result %s",
					c33Show(x.t), w, c, x.content, w, want, c33Show(got))
			}
		}

		// SplitByRune
		for _, r := range []rune{'\n', 'a', '世', 'z'} {
			got := x.t.SplitByRune(r)
			cases++
			wantPieces := strings.Count(x.content, string(r)) + 1
			if len(x.t) == 0 {
				wantPieces = 0
			}
			if len(got) != wantPieces {
				fail("%s.SplitByRune(%q): %d pieces, want %d; result %s",
					c33Show(x.t), r, len(got), wantPieces, c33ShowTexts(got))
			}
			contents := make([]string, len(got))
			var joined strings.Builder
			for k, piece := range got {
				if bad := c33NF(piece); bad != 0 {
					fail("%s.SplitByRune(%q): piece %d not in normal form: %s; result %s",
						c33Show(x.t), r, k, c33NFString(bad), c33ShowTexts(got))
				}
				contents[k] = c33Content(piece)
				joined.WriteString(c33Exp(piece))
			}
			if strings.Join(contents, string(r)) != x.content {
				fail("%s.SplitByRune(%q): pieces joined by the rune are %q, want %q; result %s",
					c33Show(x.t), r, strings.Join(contents, string(r)), x.content, c33ShowTexts(got))
			}
			// Styles: the expansion of the pieces is the original expansion
			// with the separator bytes removed.
			var want strings.Builder
			for _, seg := range x.t {
				c33ExpSeg(&want, seg.Style, strings.ReplaceAll(seg.Text, string(r), ""))
			}
			if joined.String() != want.String() {
				fail("%s.SplitByRune(%q): styles of the pieces differ from the original; result %s",
					c33Show(x.t), r, c33ShowTexts(got))
			}
		}

		// Index with a slice (extra).
		for i := 0; i <= len(x.t); i++ {
			for j := i; j <= len(x.t); j++ {
				idx := fmt.Sprintf("%d..%d", i, j)
				v, err := x.t.Index(idx)
				got, msg := asText(v, err)
				if msg == "" {
					waive := 0
					if i == j {
						waive |= 0 // (repaired in /repo: no waiver)  K-g
					}
					msg = check(got, c33Exp(x.t[i:j]), waive)
				}
				if msg != "" {
					fail("%s.Index(%q): %s; result %s", c33Show(x.t), idx, msg, c33Show(got))
				}
			}
		}

		// Text.Concat / Text.RConcat with non-Text operands.
		for _, rhs := range []any{"", "x", 3} {
			want := x.exp + c33ExpStr(Style{}, vals.ToString(rhs))
			got, msg := asText(x.t.Concat(rhs))
			if msg == "" {
				msg = check(got, want, 0)
			}
			if msg != "" {
				fail("%s.Concat(%s): %s; result %s", c33Show(x.t), c33ShowAny(rhs), msg, c33Show(got))
			}
			want = c33ExpStr(Style{}, vals.ToString(rhs)) + x.exp
			got, msg = asText(x.t.RConcat(rhs))
			if msg == "" {
				msg = check(got, want, 0)
			}
			if msg != "" {
				fail("%s.RConcat(%s): %s; result %s", c33Show(x.t), c33ShowAny(rhs), msg, c33Show(got))
			}
		}
		for _, s := range segs {
			waive := 0
			if len(x.t) > 0 && s.Text == "" && s.Style != x.t[len(x.t)-1].Style {
				waive |= 0 // (repaired in /repo: no waiver)  K-e
			}
			got, msg := asText(x.t.Concat(s))
			if msg == "" {
				msg = check(got, x.exp+c33ExpStr(s.Style, s.Text), waive)
			}
			if msg != "" {
				fail("%s.Concat(%s): %s; result %s", c33Show(x.t), c33ShowAny(s), msg, c33Show(got))
			}
		}
		// string+Text and number+Text only: everything else is not implemented.
		for _, lhs := range []any{segs[1], x.t, Text(nil)} {
			cases++
			if v, err := x.t.RConcat(lhs); err != vals.ErrConcatNotImplemented {
				fail("%s.RConcat(%s) = %v, %v; want ErrConcatNotImplemented",
					c33Show(x.t), c33ShowAny(lhs), v, err)
			}
		}
	}

	// ---- (*Segment).Concat / RConcat ----
	segConcatWaive := func(s *Segment, otherText string, otherStyle Style, otherIsEmptyText bool) int {
		// K-c (repaired in /repo: no waiver any more)
		return 0
	}
	for _, s := range segs {
		sExp := c33ExpStr(s.Style, s.Text)
		for _, o := range []any{"", "x", 3} {
			ostr := vals.ToString(o)
			got, msg := asText(s.Concat(o))
			if msg == "" {
				msg = check(got, sExp+c33ExpStr(Style{}, ostr), segConcatWaive(s, ostr, Style{}, false))
			}
			if msg != "" {
				fail("(%s).Concat(%s): %s; result %s", c33ShowSeg(s), c33ShowAny(o), msg, c33Show(got))
			}
			got, msg = asText(s.RConcat(o))
			if msg == "" {
				msg = check(got, c33ExpStr(Style{}, ostr)+sExp, segConcatWaive(s, ostr, Style{}, false))
			}
			if msg != "" {
				fail("(%s).RConcat(%s): %s; result %s", c33ShowSeg(s), c33ShowAny(o), msg, c33Show(got))
			}
		}
		for _, o := range segs {
			got, msg := asText(s.Concat(o))
			if msg == "" {
				msg = check(got, sExp+c33ExpStr(o.Style, o.Text), segConcatWaive(s, o.Text, o.Style, false))
			}
			if msg != "" {
				fail("(%s).Concat(%s): %s; result %s", c33ShowSeg(s), c33ShowAny(o), msg, c33Show(got))
			}
		}
		for _, u := range texts {
			waive := 0
			if len(u.t) == 0 {
				waive = segConcatWaive(s, "", Style{}, true)
			} else {
				waive = segConcatWaive(s, u.t[0].Text, u.t[0].Style, false)
			}
			got, msg := asText(s.Concat(u.t))
			if msg == "" {
				msg = check(got, sExp+u.exp, waive)
			}
			if msg != "" {
				fail("(%s).Concat(%s): %s; result %s", c33ShowSeg(s), c33ShowAny(u.t), msg, c33Show(got))
			}
		}
		for _, lhs := range []any{segs[1], Text(nil), texts[1].t} {
			cases++
			if v, err := s.RConcat(lhs); err != vals.ErrConcatNotImplemented {
				fail("(%s).RConcat(%s) = %v, %v; want ErrConcatNotImplemented",
					c33ShowSeg(s), c33ShowAny(lhs), v, err)
			}
		}
	}

	// ---- Concat of 0, 1, 2 texts; Text.Concat(Text) ----
	if got := Concat(); check(got, "", 0) != "" {
		fail("Concat() = %s", c33Show(got))
	}
	for _, x := range texts {
		got := Concat(x.t)
		if msg := check(got, x.exp, 0); msg != "" {
			fail("Concat(%s): %s; result %s", c33Show(x.t), msg, c33Show(got))
		}
	}
	for _, x := range pairTexts {
		for _, u := range pairTexts {
			got := Concat(x.t, u.t)
			if msg := check(got, x.exp+u.exp, 0); msg != "" {
				fail("Concat(%s, %s): %s; result %s", c33Show(x.t), c33Show(u.t), msg, c33Show(got))
			}
			got, msg := asText(x.t.Concat(u.t))
			if msg == "" {
				msg = check(got, x.exp+u.exp, 0)
			}
			if msg != "" {
				fail("%s.Concat(%s): %s; result %s", c33Show(x.t), c33ShowAny(u.t), msg, c33Show(got))
			}
		}
	}

	// ---- Concat of three, TextBuilder sequences of 0..3 texts ----
	var tb TextBuilder // reused across sequences after Reset
	checkBuilder := func(seq ...c33Text) {
		want := ""
		for _, x := range seq {
			want += x.exp
		}
		describe := func() string {
			parts := make([]string, len(seq))
			for i, x := range seq {
				parts[i] = c33Show(x.t)
			}
			return strings.Join(parts, ", ")
		}
		var fresh TextBuilder
		for _, b := range []*TextBuilder{&fresh, &tb} {
			if !b.Empty() {
				fail("TextBuilder not Empty() before writing (%s)", describe())
			}
			for _, x := range seq {
				b.WriteText(x.t)
			}
			got := b.Text()
			if msg := check(got, want, 0); msg != "" {
				fail("TextBuilder WriteText(%s); Text(): %s; result %s", describe(), msg, c33Show(got))
			}
			if b.Empty() != (want == "") {
				fail("TextBuilder WriteText(%s); Empty() = %v", describe(), b.Empty())
			}
			again := b.Text()
			if msg := check(again, want, 0); msg != "" {
				fail("TextBuilder WriteText(%s); second Text(): %s; result %s", describe(), msg, c33Show(again))
			}
			b.Reset()
		}
	}
	checkBuilder()
	for _, x := range tripleTexts {
		checkBuilder(x)
		for _, u := range tripleTexts {
			checkBuilder(x, u)
			for _, v := range tripleTexts {
				checkBuilder(x, u, v)
				got := Concat(x.t, u.t, v.t)
				if msg := check(got, x.exp+u.exp+v.exp, 0); msg != "" {
					fail("Concat(%s, %s, %s): %s; result %s",
						c33Show(x.t), c33Show(u.t), c33Show(v.t), msg, c33Show(got))
				}
			}
		}
	}

	// ---- no operation modified its operands ----
	for _, x := range texts {
		if c33Exp(x.t) != x.exp || c33NF(x.t) != 0 {
			fail("an operation modified its operand: now %s, expansion was %q", c33Show(x.t), x.exp)
		}
	}
	for i, s := range segs {
		if *s != segSnapshot[i] {
			fail("an operation modified a Segment operand: now %s", c33ShowSeg(s))
		}
	}

	for _, class := range groupOrder {
		t.Errorf("%d violations of class [%s], first: %s", groups[class].count, class, groups[class].first)
	}

	fmt.Printf("BOUNDED name=c33-text cases=%d\n", cases)
}
