package hashmap

// Bounded exhaustive harness for property C07: the persistent hash map is an
// immutable dictionary, including under hash collisions.
//
// Part 1 (enumeration). For each of four hash shapes
//   (a) all keys hash equal                    (one collisionNode)
//   (b) hashes differ only in the lowest 5-bit chunk
//   (c) hashes agree except in bits 30-31      (deepest trie level; keys k and
//       k+4 collide completely)
//   (d) identity
// ALL sequences of at most L operations from {Assoc(k, step), Dissoc(k)}, k in
// six keys, are applied (depth-first, sharing prefixes, which the persistence
// of the map makes possible) to the real map and to a Go map. After every step
// the new version AND every earlier version on the current path are compared
// with their recorded reference snapshot: Len, Index of the six keys, of nil
// and of an absent key (which collides with key 3 in shapes a, b, c), and an
// Iterator pass that must visit exactly the reference's entries once each.
// The same is done for the key set {nil, 0, 1, 4} (nil key handling; 0 and 4
// collide in shape c).
//   VERIF_TIER=thorough  L = 6,  otherwise L = 5.
//
// Part 2 (sweep). For each trie level 0..6, with hash(k) = k << (5*level), 40
// keys are inserted, re-associated and deleted one by one in fixed orders
// (ascending, descending, two strides, and every rotation of the ascending and
// descending deletion order), so that the node at that level is unpacked into
// an arrayNode (> 16 entries) and packed back into a bitmapNode (<= 8
// children, losing each possible child position); every intermediate version
// is checked immediately and once more at the end of the sweep.
//
// cases = number of operation steps applied and checked.

import (
	"fmt"
	"os"
	"testing"
)

type c07Key int

const c07Absent = c07Key(99)

func c07Equal(a, b any) bool { return a == b }

type c07H struct {
	t     *testing.T
	cases int64
	seen  map[any]bool
}

// check compares one version of the map with its reference.
func (h *c07H) check(ctx func() string, m Map, ref map[any]int, probes []any) {
	if m == nil {
		h.t.Fatalf("C07 %s: got nil map", ctx())
	}
	if m.Len() != len(ref) {
		h.t.Fatalf("C07 %s: Len() = %d, want %d (reference %v)", ctx(), m.Len(), len(ref), ref)
	}
	for _, k := range probes {
		got, ok := m.Index(k)
		want, wantOk := ref[k]
		if wantOk {
			if !ok || got != any(want) {
				h.t.Fatalf("C07 %s: Index(%v) = (%v, %v), want (%d, true) (reference %v)", ctx(), k, got, ok, want, ref)
			}
		} else if ok || got != nil {
			h.t.Fatalf("C07 %s: Index(%v) = (%v, %v), want (nil, false) (reference %v)", ctx(), k, got, ok, ref)
		}
		if HasKey(m, k) != wantOk {
			h.t.Fatalf("C07 %s: HasKey(%v) = %v, want %v", ctx(), k, !wantOk, wantOk)
		}
	}
	clear(h.seen)
	n := 0
	for it := m.Iterator(); it.HasElem(); it.Next() {
		k, v := it.Elem()
		n++
		if n > len(ref) {
			h.t.Fatalf("C07 %s: iterator yields more than %d entries (reference %v)", ctx(), len(ref), ref)
		}
		if h.seen[k] {
			h.t.Fatalf("C07 %s: iterator yields key %v twice (reference %v)", ctx(), k, ref)
		}
		h.seen[k] = true
		want, wantOk := ref[k]
		if !wantOk || v != any(want) {
			h.t.Fatalf("C07 %s: iterator yields (%v, %v), reference has (%v, present=%v) (reference %v)", ctx(), k, v, want, wantOk, ref)
		}
	}
	if n != len(ref) {
		h.t.Fatalf("C07 %s: iterator yields %d entries, want %d (reference %v)", ctx(), n, len(ref), ref)
	}
}

type c07Op struct {
	dissoc bool
	k      any
}

func (o c07Op) String() string {
	if o.dissoc {
		return fmt.Sprintf("Dissoc(%v)", o.k)
	}
	return fmt.Sprintf("Assoc(%v)", o.k)
}

type c07Ver struct {
	m   Map
	ref map[any]int
}

func c07Apply(cur c07Ver, op c07Op, val int) c07Ver {
	ref := make(map[any]int, len(cur.ref)+1)
	for k, v := range cur.ref {
		ref[k] = v
	}
	if op.dissoc {
		delete(ref, op.k)
		return c07Ver{cur.m.Dissoc(op.k), ref}
	}
	ref[op.k] = val
	return c07Ver{cur.m.Assoc(op.k, val), ref}
}

// enumerate applies every operation sequence of length <= maxLen.
func (h *c07H) enumerate(shape string, hash Hash, keys []any, maxLen int) {
	var ops []c07Op
	for _, k := range keys {
		ops = append(ops, c07Op{false, k})
	}
	for _, k := range keys {
		ops = append(ops, c07Op{true, k})
	}
	probes := append(append([]any(nil), keys...), nil, c07Absent)

	path := []c07Ver{{New(c07Equal, hash), map[any]int{}}}
	var seq []c07Op
	h.check(func() string { return "shape " + shape + ": empty map" }, path[0].m, path[0].ref, probes)

	var dfs func()
	dfs = func() {
		if len(seq) == maxLen {
			return
		}
		for _, op := range ops {
			seq = append(seq, op)
			path = append(path, c07Apply(path[len(path)-1], op, len(seq)))
			h.cases++
			// The new version first, then every earlier version.
			for i := len(path) - 1; i >= 0; i-- {
				i := i
				h.check(func() string {
					return fmt.Sprintf("shape %s: after %v (values = step numbers), version after the first %d steps", shape, seq, i)
				}, path[i].m, path[i].ref, probes)
			}
			dfs()
			seq = seq[:len(seq)-1]
			path = path[:len(path)-1]
		}
	}
	dfs()
}

// c07Perm returns a permutation of 0..n-1: kind 0 ascending, 1 descending,
// 2 stride (i*arg mod n, arg coprime to n); kinds 0 and 1 start at offset arg.
func c07Perm(n, kind, arg int) []int {
	p := make([]int, n)
	for i := range p {
		switch kind {
		case 0:
			p[i] = (arg + i) % n
		case 1:
			p[i] = ((arg-i)%n + n) % n
		default:
			p[i] = i * arg % n
		}
	}
	return p
}

// sweep inserts len(ins) keys in the order ins, re-associates them and deletes
// them in the order del, with hash(k) = k << (5*level).
func (h *c07H) sweep(level uint, ins, del []int) {
	n := len(ins)
	hash := func(k any) uint32 { return uint32(k.(c07Key)) << (5 * level) }
	probes := []any{nil, c07Key(n), c07Key(n + 32), c07Key(-1)}
	for i := 0; i < n; i++ {
		probes = append(probes, c07Key(i))
	}
	cur := c07Ver{New(c07Equal, hash), map[any]int{}}
	vers := []c07Ver{cur}
	var steps []string
	step := func(op c07Op, val int) {
		cur = c07Apply(cur, op, val)
		vers = append(vers, cur)
		steps = append(steps, op.String())
		h.cases++
		h.check(func() string {
			return fmt.Sprintf("sweep level %d (hash = k<<%d), after %v", level, 5*level, steps)
		}, cur.m, cur.ref, probes)
	}
	for i := 0; i < n; i++ {
		step(c07Op{false, c07Key(ins[i])}, i)
	}
	for i := 0; i < n; i++ { // replace every value at full size
		step(c07Op{false, c07Key(del[i])}, 1000+i)
	}
	step(c07Op{true, c07Key(n)}, 0) // absent key: no change
	for i := 0; i < n; i++ {
		step(c07Op{true, c07Key(del[i])}, 0)
		if i%5 == 0 { // deleting it again changes nothing
			step(c07Op{true, c07Key(del[i])}, 0)
		}
	}
	if cur.m.Len() != 0 {
		h.t.Fatalf("C07 sweep level %d: map not empty at the end", level)
	}
	// Immutability: every intermediate version is still what it was.
	for i, v := range vers {
		i := i
		h.check(func() string {
			return fmt.Sprintf("sweep level %d (hash = k<<%d), re-check of the version after %v, at the end of %v", level, 5*level, steps[:i], steps)
		}, v.m, v.ref, probes)
	}
}

func TestVerifBoundedC07(t *testing.T) {
	L := 5
	if os.Getenv("VERIF_TIER") == "thorough" {
		L = 6
	}
	h := &c07H{t: t, seen: map[any]bool{}}

	shapes := []struct {
		name string
		hash Hash
	}{
		{"a(all equal)", func(k any) uint32 { return 0x12345678 }},
		{"b(low chunk differs)", func(k any) uint32 { return 0x5A5A5A40 | uint32(k.(c07Key))&31 }},
		{"c(only bits 30-31 differ)", func(k any) uint32 { return 0x2AAAAAAA | uint32(k.(c07Key))<<30 }},
		{"d(identity)", func(k any) uint32 { return uint32(k.(c07Key)) }},
	}
	keys6 := []any{c07Key(0), c07Key(1), c07Key(2), c07Key(3), c07Key(4), c07Key(5)}
	keysNil := []any{nil, c07Key(0), c07Key(1), c07Key(4)}
	for _, s := range shapes {
		h.enumerate(s.name, s.hash, keys6, L)
		h.enumerate(s.name+" with nil key", s.hash, keysNil, L)
	}

	const nSweep = 40
	for level := uint(0); level <= 6; level++ {
		basic := [][]int{c07Perm(nSweep, 0, 0), c07Perm(nSweep, 1, nSweep-1), c07Perm(nSweep, 2, 7), c07Perm(nSweep, 2, 11)}
		for _, ins := range basic {
			for _, del := range basic {
				h.sweep(level, ins, del)
			}
		}
		// Every rotation of the deletion order, so that an arrayNode is packed
		// while losing each possible child position.
		for o := 1; o < nSweep; o++ {
			h.sweep(level, basic[0], c07Perm(nSweep, 0, o))
			h.sweep(level, basic[0], c07Perm(nSweep, 1, o))
		}
	}

	fmt.Printf("BOUNDED name=c07_hashmap cases=%d\n", h.cases)
}
