package lsp

// Bounded stand-in for C44 (injected in-package by gvc with go test -overlay).
// Exhaustive over all documents of at most maxLen symbols drawn from
// {a, CR, LF, a 3-byte BMP character, a 4-byte astral character}.
// Labelled "bounded": never counted as proved.

import (
	"fmt"
	"testing"
	"unicode/utf8"
)

func TestVerifBoundedC44RoundTrip(t *testing.T) {
	alphabet := []string{"a", "\r", "\n", "世", "\U0001F600"}
	maxLen := 6
	var cases int64
	var rec func(prefix string, n int)
	rec = func(prefix string, n int) {
		s := prefix
		for idx := 0; idx <= len(s); idx++ {
			if idx < len(s) && !utf8.RuneStart(s[idx]) {
				continue
			}
			cases++
			pos := lspPositionFromIdx(s, idx)
			back := lspPositionToIdx(s, pos)
			if back != idx {
				t.Fatalf("round-trip fails: s=%q idx=%d -> pos=%+v -> idx=%d", s, idx, pos, back)
			}
		}
		// positions past the end / arbitrary indices never panic
		_ = lspPositionFromIdx(s, len(s)+3)
		_ = lspPositionFromIdx(s, -1)
		if n == maxLen {
			return
		}
		for _, a := range alphabet {
			rec(prefix+a, n+1)
		}
	}
	rec("", 0)
	fmt.Printf("BOUNDED name=c44-roundtrip cases=%d\n", cases)
}
