package glob

// Bounded exhaustive harness for property C23: wildcard matching of ONE path
// component, i.e. matchElement(segs, name).
//
// Every pattern of at most S segments drawn from
//     *   *[match-hidden]   ?   ?[match-hidden]   "a"   "."   "ab"
// (the MatchHidden flag is chosen per wildcard, as the language allows) is
// matched against every name of length <= M over the alphabet {a, b, .} and
// the result is compared with the declarative matcher c23Ref below.
//   VERIF_TIER=thorough  S = 4, M = 5;   otherwise S = 3, M = 4.
// Each pattern is tried in up to three forms, all of which must agree with the
// reference: as enumerated; with adjacent Literal segments merged into one
// (what Parse and the evaluator produce); and with every Star replaced by
// StarStar (matchElement documents that it treats StarStar as Star).
//
// Reference semantics (website/ref/language.md, "Wildcard expansion"):
//   - "?" matches exactly one character except "/"
//   - "*" matches any number of characters except "/"
//   - a Literal matches itself
//   - "None of the wildcards matches . at the beginning of filenames";
//     match-hidden is a LOCAL modifier that lifts this for the one wildcard it
//     is attached to. Following the POSIX leading-period convention (and the
//     doc comment in matchElement) a wildcard without match-hidden that stands
//     at the beginning of a name starting with "." fails even if it would
//     consume nothing: "*.conf" does not match ".conf" (bash agrees).
//
// Not covered, by design of matchElement:
//   - Slash segments: matchElement's contract excludes them (matchFixedLength
//     panics on them); glob() splits the pattern at slashes first.
//   - Literal{""}: never produced by Parse or by the evaluator, and
//     matchFixedLength deliberately fails on an exhausted name before looking
//     at the segment.
//   - Wild.Matchers (character sets/ranges): nil here, i.e. "any character".
//   - "/" inside names: names come from ReadDir and never contain it, so the
//     "except /" clause of the reference is vacuous on this alphabet (a Wild
//     without Matchers would in fact accept '/').
//
// KNOWN DISAGREEMENT on the pinned tree (see c23Match/c23Ref): matchElement
// looks at MatchHidden of the FIRST segment only, so when a leading
// *[match-hidden] consumes nothing, a following "?" WITHOUT match-hidden is
// allowed to consume the leading dot, e.g. pattern *[match-hidden]?a matches
// ".a" and *[match-hidden]? matches ".", although the documentation says the
// modifier "only applies to the wildcard it immediately follows" and that "dots
// at the beginning of filenames always require an explicit match-hidden". All
// disagreements in the thorough space are of this shape (first segment
// */**[match-hidden], name starts with ".", a plain "?" takes the dot; real
// says true, reference says false). The check is NOT weakened for it. Setting
// VERIF_C23_HIDDEN=uniform restricts the enumeration to patterns whose
// wildcards all carry the same MatchHidden flag (one flag per pattern), a
// sub-space in which that shape cannot occur.
//
// cases = number of (pattern form, name) pairs compared.

import (
	"fmt"
	"os"
	"strings"
	"testing"
)

// c23Match is the reference for matchElement.
func c23Match(segs []Segment, name string) bool {
	// Leading-period convention for the pattern's first segment (doc comment of
	// matchElement; same as POSIX fnmatch with FNM_PERIOD): it fails even if
	// the wildcard would consume nothing.
	if strings.HasPrefix(name, ".") && len(segs) > 0 && IsWild(segs[0]) && !segs[0].(Wild).MatchHidden {
		return false
	}
	return c23Ref(segs, name, 0)
}

// c23Ref reports whether segs match name[pos:], given that name[:pos] has been
// consumed by earlier segments. The "." at the beginning of a name can only be
// consumed by a Literal or by a wildcard that itself carries match-hidden.
func c23Ref(segs []Segment, name string, pos int) bool {
	if len(segs) == 0 {
		return pos == len(name)
	}
	rest := segs[1:]
	switch seg := segs[0].(type) {
	case Literal:
		return strings.HasPrefix(name[pos:], seg.Data) && c23Ref(rest, name, pos+len(seg.Data))
	case Wild:
		canConsume := func(i int) bool { // may this wildcard consume name[i]?
			return name[i] != '/' && (i > 0 || name[i] != '.' || seg.MatchHidden)
		}
		switch seg.Type {
		case Question:
			return pos < len(name) && canConsume(pos) && c23Ref(rest, name, pos+1)
		case Star, StarStar:
			for end := pos; ; end++ {
				if c23Ref(rest, name, end) {
					return true
				}
				if end == len(name) || !canConsume(end) {
					return false
				}
			}
		}
	}
	panic("c23Ref: unexpected segment")
}

func c23Show(segs []Segment) string {
	var sb strings.Builder
	sb.WriteString("[")
	for i, seg := range segs {
		if i > 0 {
			sb.WriteString(" ")
		}
		switch seg := seg.(type) {
		case Literal:
			fmt.Fprintf(&sb, "%q", seg.Data)
		case Wild:
			sb.WriteString([]string{"?", "*", "**"}[seg.Type])
			if seg.MatchHidden {
				sb.WriteString("[match-hidden]")
			}
		}
	}
	sb.WriteString("]")
	return sb.String()
}

// c23Merge merges adjacent Literal segments; changed reports whether it did.
func c23Merge(segs []Segment) (out []Segment, changed bool) {
	for _, seg := range segs {
		if lit, ok := seg.(Literal); ok && len(out) > 0 && IsLiteral(out[len(out)-1]) {
			out[len(out)-1] = Literal{out[len(out)-1].(Literal).Data + lit.Data}
			changed = true
		} else {
			out = append(out, seg)
		}
	}
	return out, changed
}

// c23StarStar replaces every Star by StarStar.
func c23StarStar(segs []Segment) (out []Segment, changed bool) {
	for _, seg := range segs {
		if w, ok := seg.(Wild); ok && w.Type == Star {
			w.Type = StarStar
			seg = w
			changed = true
		}
		out = append(out, seg)
	}
	return out, changed
}

// c23Mixed reports whether appending seg to segs yields a pattern that has
// wildcards both with and without MatchHidden.
func c23Mixed(segs []Segment, seg Segment) bool {
	w, ok := seg.(Wild)
	if !ok {
		return false
	}
	for _, s := range segs {
		if sw, ok := s.(Wild); ok && sw.MatchHidden != w.MatchHidden {
			return true
		}
	}
	return false
}

func TestVerifBoundedC23(t *testing.T) {
	maxSegs, maxName := 3, 4
	if os.Getenv("VERIF_TIER") == "thorough" {
		maxSegs, maxName = 4, 5
	}
	alphabet := []Segment{
		Wild{Star, false, nil}, Wild{Star, true, nil},
		Wild{Question, false, nil}, Wild{Question, true, nil},
		Literal{"a"}, Literal{"."}, Literal{"ab"},
	}

	// All names of length <= maxName over {a, b, .}, shortest first.
	names := []string{""}
	for lo := 0; len(names[lo]) < maxName; lo++ {
		for _, ch := range "ab." {
			names = append(names, names[lo]+string(ch))
		}
	}

	uniform := os.Getenv("VERIF_C23_HIDDEN") == "uniform"

	var cases int64
	compare := func(form string, segs []Segment) {
		for _, name := range names {
			cases++
			want := c23Match(segs, name)
			got := matchElement(segs, name)
			if got != want {
				t.Fatalf("C23 (%s form): matchElement(%s, %q) = %v, reference says %v",
					form, c23Show(segs), name, got, want)
			}
		}
	}

	// All patterns of length <= maxSegs, shortest first.
	patterns := [][]Segment{{}}
	for lo := 0; lo < len(patterns); lo++ {
		segs := patterns[lo]
		compare("enumerated", segs)
		if merged, changed := c23Merge(segs); changed {
			compare("literals merged", merged)
		}
		if ss, changed := c23StarStar(segs); changed {
			compare("StarStar", ss)
		}
		if len(segs) < maxSegs {
			for _, seg := range alphabet {
				if uniform && c23Mixed(segs, seg) {
					continue
				}
				patterns = append(patterns, append(append([]Segment(nil), segs...), seg))
			}
		}
	}

	fmt.Printf("BOUNDED name=c23_glob cases=%d\n", cases)
}
