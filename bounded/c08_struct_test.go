package vals

// Bounded-exhaustive harness for property C08: "values that are eq are the
// same map key".
//
// For ALL ordered pairs (x, y) from a pool of structured values:
//
//	(P1) Equal(x, y) implies Hash(x) == Hash(y).
//	(P2) Equal(x, y) == Equal(y, x)                  (eq is symmetric; a key
//	     lookup compares in either direction depending on which value is
//	     already stored, so an asymmetric eq is not a usable key relation).
//	(P3) for all base maps b (the empty map, and a 40-entry map whose keys are
//	     not eq to any pool value) and stored values v: with
//	     m := b.Assoc(x, v):
//	       if Equal(x, y):  m.Index(y) finds v, HasKey(m, y), and
//	                        m.Assoc(y, w) has as many entries as m and maps both
//	                        x and y to w;
//	       otherwise:       m.Index(y) finds nothing and m.Assoc(y, w) has one
//	                        entry more, x -> v, y -> w.
//	     (The "otherwise" half is the converse: values that are NOT eq are
//	     different keys. Values containing NaN are not eq to themselves; for
//	     them the converse is checked only for y != x by identity, because a
//	     NaN-containing key can never be found again, which is the documented
//	     IEEE behaviour of eq on NaN and not a C08 matter.)
//
// Pool:
//
//   - scalars: booleans, ints 0 1 -1 1<<62, the big ints 2^64 and -(2^64) each
//     built twice (distinct pointers, one through a string, one by shifting),
//     the rational 1/2 built twice (NewRat(1,2) and SetFrac(2,4)), the floats
//     0.0, -0.0 (math.Copysign), 1.0, NaN, +Inf, and the strings "", "a", "ab",
//     "bA" ("ab" and "bA" really collide under hash.String - checked at run
//     time), plus "0" and "1" (strings that look like the ints);
//   - every list of 0, 1 or 2 scalars;
//   - every map built by at most 2 Assoc calls over a few keys (incl. the
//     colliding strings, 0 / 0.0 / -0.0, both 2^64 pointers) and values;
//   - a field-map struct and the Map with the same entries;
//   - large maps: for each n in {15,16,17,18,33,40,101} the SAME n+2 string keys
//     (n distinct keys plus the colliding pair "ab"/"bA") inserted in several
//     orders (ascending, descending, ascending with the colliding pair swapped,
//     colliding pair first, colliding pair first and swapped, pair split around
//     the other keys, built with 20 extra keys that are dissoc'ed again,
//     built in two overwrite passes), one variant whose values are eq but not
//     identical (-0.0 for 0.0, a second 2^64 pointer), and variants that differ
//     in one value / one key (must NOT be eq);
//   - nested: lists containing each large map, and maps with each large map as
//     a value.
//
// Bounds: quick = the pool above with one stored value v; VERIF_TIER=thorough
// additionally uses more keys and values for the small maps, all lists of 2
// large maps with n = 16, and two stored values v.
//
// Each line of output "BOUNDED name=c08_struct cases=N" counts every (x, y)
// pair once for P1/P2 and once per (base, v) for P3.

import (
	"fmt"
	"math"
	"math/big"
	"os"
	"testing"

	"src.elv.sh/pkg/persistent/hash"
)

type verifC08Val struct {
	name string // how the value was built
	v    any
	nan  bool // contains NaN (not eq to itself)
}

// A field map: keys are "ab" and "x".
type verifC08FieldMap struct {
	Ab int
	X  string
}

func verifC08Big(s string) *big.Int {
	z, ok := new(big.Int).SetString(s, 10)
	if !ok {
		panic("bad big int " + s)
	}
	return z
}

func TestVerifBoundedC08(t *testing.T) {
	thorough := os.Getenv("VERIF_TIER") == "thorough"

	if hash.String("ab") != hash.String("bA") || "ab" == "bA" {
		t.Fatalf("harness assumption broken: \"ab\" and \"bA\" no longer collide under hash.String (%d vs %d); pick another pair",
			hash.String("ab"), hash.String("bA"))
	}

	negZero := math.Copysign(0, -1)
	big64a := verifC08Big("18446744073709551616")
	big64b := new(big.Int).Lsh(big.NewInt(1), 64)
	bigN64a := verifC08Big("-18446744073709551616")
	bigN64b := new(big.Int).Neg(new(big.Int).Lsh(big.NewInt(1), 64))
	halfA := big.NewRat(1, 2)
	halfB := new(big.Rat).SetFrac(big.NewInt(2), big.NewInt(4))

	scalars := []verifC08Val{
		{"true", true, false}, {"false", false, false},
		{"int 0", 0, false}, {"int 1", 1, false}, {"int -1", -1, false}, {"int 1<<62", 1 << 62, false},
		{"big 2^64 (from string)", big64a, false}, {"big 2^64 (1<<64)", big64b, false},
		{"big -2^64 (from string)", bigN64a, false}, {"big -2^64 (-(1<<64))", bigN64b, false},
		{"rat 1/2 (NewRat(1,2))", halfA, false}, {"rat 1/2 (SetFrac(2,4))", halfB, false},
		{"float 0.0", 0.0, false}, {"float -0.0", negZero, false}, {"float 1.0", 1.0, false},
		{"float NaN", math.NaN(), true}, {"float +Inf", math.Inf(1), false},
		{`""`, "", false}, {`"a"`, "a", false}, {`"ab"`, "ab", false}, {`"bA"`, "bA", false},
		{`"0"`, "0", false}, {`"1"`, "1", false},
	}

	var pool []verifC08Val
	add := func(name string, v any, nan bool) { pool = append(pool, verifC08Val{name, v, nan}) }
	pool = append(pool, scalars...)

	// Lists of up to 2 scalars.
	add("[]", EmptyList, false)
	for _, a := range scalars {
		add("["+a.name+"]", MakeList(a.v), a.nan)
	}
	for _, a := range scalars {
		for _, b := range scalars {
			add("["+a.name+", "+b.name+"]", MakeList(a.v, b.v), a.nan || b.nan)
		}
	}

	// Small maps: at most two Assoc calls over a few keys and values.
	smallKeys := []verifC08Val{
		{"int 0", 0, false}, {"float 0.0", 0.0, false}, {"float -0.0", negZero, false},
		{`"ab"`, "ab", false}, {`"bA"`, "bA", false},
		{"big 2^64 (from string)", big64a, false}, {"big 2^64 (1<<64)", big64b, false},
	}
	smallVals := []verifC08Val{
		{"int 0", 0, false}, {"float 0.0", 0.0, false}, {"float -0.0", negZero, false}, {`"x"`, "x", false},
	}
	if thorough {
		smallKeys = append(smallKeys,
			verifC08Val{"rat 1/2 (NewRat(1,2))", halfA, false},
			verifC08Val{"rat 1/2 (SetFrac(2,4))", halfB, false},
			verifC08Val{"float NaN", math.NaN(), true})
		smallVals = append(smallVals,
			verifC08Val{"big 2^64 (1<<64)", big64b, false})
	}
	add("[&]", EmptyMap, false)
	for _, k1 := range smallKeys {
		for _, v1 := range smallVals {
			n1 := "[&" + k1.name + "=" + v1.name
			m1 := EmptyMap.Assoc(k1.v, v1.v)
			add(n1+"]", m1, k1.nan || v1.nan)
			for _, k2 := range smallKeys {
				for _, v2 := range smallVals {
					// When k2 eq k1 the second Assoc overwrites, so the map
					// may not contain NaN even if v1 was NaN; recompute.
					m2 := m1.Assoc(k2.v, v2.v)
					nan := k2.nan || v2.nan || k1.nan || (v1.nan && m2.Len() == 2)
					add(n1+" then &"+k2.name+"="+v2.name+"]", m2, nan)
				}
			}
		}
	}

	// A field map and the equivalent Map (both directions of Equal differ in
	// code path).
	add("fieldmap{Ab:0 X:x}", verifC08FieldMap{0, "x"}, false)
	add(`[&"ab"=int 0 &"x"="x"]`, MakeMap("ab", 0, "x", "x"), false)
	add(`[&"x"="x" &"ab"=float 0.0]`, MakeMap("x", "x", "ab", 0.0), false)
	add(`[&"bA"=int 0 &"x"="x"]`, MakeMap("bA", 0, "x", "x"), false)

	// Large maps.
	var bigMaps []verifC08Val
	for _, n := range []int{15, 16, 17, 18, 33, 40, 101} {
		keys := make([]string, 0, n+2)
		for i := 0; i < n; i++ {
			keys = append(keys, fmt.Sprintf("k%03d", i))
		}
		valOf := func(k string) any {
			switch k {
			case "ab":
				return 0.0
			case "bA":
				return big64a
			}
			return "v" + k
		}
		// The same values, eq but not identical.
		valOfEq := func(k string) any {
			switch k {
			case "ab":
				return negZero
			case "bA":
				return big64b
			}
			return "v" + k
		}
		build := func(order []string, val func(string) any) Map {
			m := EmptyMap
			for _, k := range order {
				m = m.Assoc(k, val(k))
			}
			if m.Len() != n+2 {
				t.Fatalf("C08 violated (large map n=%d): inserting %d distinct string keys gave a map with %d entries; order %q",
					n, n+2, m.Len(), order)
			}
			return m
		}
		rev := func(s []string) []string {
			r := make([]string, len(s))
			for i, x := range s {
				r[len(s)-1-i] = x
			}
			return r
		}
		cat := func(parts ...[]string) []string {
			var r []string
			for _, p := range parts {
				r = append(r, p...)
			}
			return r
		}
		asc := cat(keys, []string{"ab", "bA"})
		orders := []struct {
			name  string
			order []string
		}{
			{"ascending", asc},
			{"descending", rev(asc)},
			{"ascending, colliding pair swapped", cat(keys, []string{"bA", "ab"})},
			{"colliding pair first", cat([]string{"ab", "bA"}, keys)},
			{"colliding pair first, swapped", cat([]string{"bA", "ab"}, keys)},
			{"colliding pair split around the rest", cat([]string{"bA"}, keys, []string{"ab"})},
		}
		pre := fmt.Sprintf("bigmap n=%d ", n)
		for _, o := range orders {
			bigMaps = append(bigMaps, verifC08Val{pre + o.name, build(o.order, valOf), false})
		}
		bigMaps = append(bigMaps, verifC08Val{pre + "descending, eq-but-not-identical values", build(rev(asc), valOfEq), false})

		// Same set of keys, reached by adding 20 extra keys and removing them.
		{
			m := EmptyMap
			var extras []any
			for i := 0; i < 20; i++ {
				extras = append(extras, fmt.Sprintf("extra%02d", i))
			}
			extras = append(extras, "aC") // hash.String("aC") != "ab" - just another key
			for i, k := range asc {
				m = m.Assoc(k, valOf(k))
				if i < len(extras) {
					m = m.Assoc(extras[i], "gone")
				}
			}
			for _, k := range extras {
				m = m.Dissoc(k)
			}
			// Also remove and re-add one of the colliding keys.
			m = m.Dissoc("ab").Assoc("ab", valOf("ab"))
			if m.Len() != n+2 {
				t.Fatalf("C08 violated (large map n=%d): after adding and removing extra keys the map has %d entries, want %d", n, m.Len(), n+2)
			}
			bigMaps = append(bigMaps, verifC08Val{pre + "with 21 extra keys added and dissoc'ed", m, false})
		}
		// Two passes: first all keys with a dummy value (descending), then
		// overwritten with the real values (ascending).
		{
			m := EmptyMap
			for _, k := range rev(asc) {
				m = m.Assoc(k, "dummy")
			}
			for _, k := range asc {
				m = m.Assoc(k, valOf(k))
			}
			if m.Len() != n+2 {
				t.Fatalf("C08 violated (large map n=%d): overwriting every key changed the size to %d", n, m.Len())
			}
			bigMaps = append(bigMaps, verifC08Val{pre + "two passes (overwritten)", m, false})
		}
		// Not eq: one value differs / the colliding keys have swapped values /
		// one key replaced by another.
		bigMaps = append(bigMaps,
			verifC08Val{pre + "ascending, value of k003 differs", build(asc, valOf).Assoc("k003", "other"), false},
			verifC08Val{pre + "ascending, values of the colliding pair swapped",
				build(asc, valOf).Assoc("ab", valOf("bA")).Assoc("bA", valOf("ab")), false},
			verifC08Val{pre + "ascending, key bA replaced by key aC",
				build(asc, valOf).Dissoc("bA").Assoc("aC", valOf("bA")), false},
		)
	}
	pool = append(pool, bigMaps...)
	// Nested.
	for _, b := range bigMaps {
		add("["+b.name+"]", MakeList(b.v), false)
		add(`[&"k"=`+b.name+"]", MakeMap("k", b.v), false)
	}
	if thorough {
		for _, a := range bigMaps {
			for _, b := range bigMaps {
				// Lists of two large maps, for n = 16 only (keeps the
				// pool small enough; lists of maps of different sizes
				// cannot be eq to anything but themselves anyway).
				if a.v.(Map).Len() == 16+2 && b.v.(Map).Len() == 16+2 {
					add("["+a.name+", "+b.name+"]", MakeList(a.v, b.v), false)
				}
			}
		}
	}

	// The base maps for P3. Their keys are eq to no pool value (checked).
	var bases []verifC08Val
	bases = append(bases, verifC08Val{"empty", EmptyMap, false})
	{
		m := EmptyMap
		for i := 0; i < 40; i++ {
			m = m.Assoc(fmt.Sprintf("base%02d", i), i)
		}
		bases = append(bases, verifC08Val{"40 base keys", m, false})
	}
	for _, p := range pool {
		if _, ok := bases[1].v.(Map).Index(p.v); ok {
			t.Fatalf("harness error: pool value %s is a key of the base map", p.name)
		}
	}
	describe := func(p verifC08Val) string {
		return fmt.Sprintf("%s  (Go type %T, repr %s)", p.name, p.v, ReprPlain(p.v))
	}

	hashes := make([]uint32, len(pool))
	for i, p := range pool {
		func() {
			defer func() {
				if r := recover(); r != nil {
					t.Fatalf("C08 violated: Hash panicked: %v\n  x = %s", r, describe(p))
				}
			}()
			hashes[i] = Hash(p.v)
			if h2 := Hash(p.v); h2 != hashes[i] {
				t.Fatalf("C08 violated: Hash is not deterministic: %d then %d\n  x = %s", hashes[i], h2, describe(p))
			}
		}()
	}

	cases, eqPairs := 0, 0
	eq := make([][]bool, len(pool))
	for i := range eq {
		eq[i] = make([]bool, len(pool))
	}
	// P1 and reflexivity.
	for i, x := range pool {
		for j, y := range pool {
			cases++
			var e bool
			func() {
				defer func() {
					if r := recover(); r != nil {
						t.Fatalf("C08 violated: Equal panicked: %v\n  x = %s\n  y = %s", r, describe(x), describe(y))
					}
				}()
				e = Equal(x.v, y.v)
			}()
			eq[i][j] = e
			if e {
				eqPairs++
				if hashes[i] != hashes[j] {
					t.Fatalf("C08 violated: Equal(x, y) but Hash(x) = %d != Hash(y) = %d\n  x = %s\n  y = %s",
						hashes[i], hashes[j], describe(x), describe(y))
				}
			}
			if i == j && e == x.nan {
				t.Fatalf("C08 violated: Equal(x, x) = %v for a value that contains NaN: %v\n  x = %s", e, x.nan, describe(x))
			}
		}
	}
	// P2.
	for i, x := range pool {
		for j := i + 1; j < len(pool); j++ {
			if eq[i][j] != eq[j][i] {
				t.Fatalf("C08 violated: eq is not symmetric: Equal(x, y) = %v, Equal(y, x) = %v\n  x = %s\n  y = %s",
					eq[i][j], eq[j][i], describe(x), describe(pool[j]))
			}
		}
	}

	// P3.
	stored := []any{"v"}
	if thorough {
		stored = []any{"v", 0}
	}
	const w = "w"
	for i, x := range pool {
		for _, base := range bases {
			b := base.v.(Map)
			for _, v := range stored {
				var m Map
				func() {
					defer func() {
						if r := recover(); r != nil {
							t.Fatalf("C08 violated: Assoc panicked: %v\n  base = %s\n  x = %s", r, base.name, describe(x))
						}
					}()
					m = b.Assoc(x.v, v)
				}()
				if m.Len() != b.Len()+1 {
					t.Fatalf("C08 violated: base(%s).Assoc(x, v).Len() = %d, want %d\n  x = %s", base.name, m.Len(), b.Len()+1, describe(x))
				}
				cur := 0 // index of the y being checked, for the panic report
				func() {
					defer func() {
						if r := recover(); r != nil {
							t.Fatalf("C08 violated: map operation panicked: %v\n  base = %s\n  x = %s\n  y = %s", r, base.name, describe(x), describe(pool[cur]))
						}
					}()
					for j, y := range pool {
						cases++
						cur = j
						if x.nan && i == j {
							// NaN-containing key: cannot be found again (eq on NaN).
							continue
						}
						{
							got, found := m.Index(y.v)
							m2 := m.Assoc(y.v, w)
							gx, fx := m2.Index(x.v)
							gy, fy := m2.Index(y.v)
							if eq[i][j] {
								if !found || got != v || !HasKey(m, y.v) {
									t.Fatalf("C08 violated: Equal(x, y) but after m := base(%s).Assoc(x, %#v), m.Index(y) = (%v, %v)\n  x = %s\n  y = %s",
										base.name, v, got, found, describe(x), describe(y))
								}
								if m2.Len() != m.Len() {
									t.Fatalf("C08 violated: Equal(x, y) but base(%s).Assoc(x, v).Assoc(y, w).Len() = %d, want %d (x and y are two keys)\n  x = %s\n  y = %s",
										base.name, m2.Len(), m.Len(), describe(x), describe(y))
								}
								if !fx || gx != w || !fy || gy != w {
									t.Fatalf("C08 violated: Equal(x, y) but after Assoc(x, v).Assoc(y, w): Index(x) = (%v, %v), Index(y) = (%v, %v), want w for both\n  base = %s\n  x = %s\n  y = %s",
										gx, fx, gy, fy, base.name, describe(x), describe(y))
								}
							} else {
								if found {
									t.Fatalf("C08 violated (converse): !Equal(x, y) but base(%s).Assoc(x, v).Index(y) finds %v\n  x = %s\n  y = %s",
										base.name, got, describe(x), describe(y))
								}
								if m2.Len() != m.Len()+1 {
									t.Fatalf("C08 violated (converse): !Equal(x, y) but base(%s).Assoc(x, v).Assoc(y, w).Len() = %d, want %d\n  x = %s\n  y = %s",
										base.name, m2.Len(), m.Len()+1, describe(x), describe(y))
								}
								if !y.nan && (!fy || gy != w) || !x.nan && (!fx || gx != v) {
									t.Fatalf("C08 violated (converse): !Equal(x, y) but after Assoc(x, v).Assoc(y, w): Index(x) = (%v, %v) want v, Index(y) = (%v, %v) want w\n  base = %s\n  x = %s\n  y = %s",
										gx, fx, gy, fy, base.name, describe(x), describe(y))
								}
							}
						}
					}
				}()
			}
		}
	}

	t.Logf("pool=%d values (%d scalars, %d large maps), eq pairs=%d (including x with itself), bases=%d, stored values=%d",
		len(pool), len(scalars), len(bigMaps), eqPairs, len(bases), len(stored))
	fmt.Printf("BOUNDED name=c08_struct cases=%d\n", cases)
}
